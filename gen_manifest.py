#!/usr/bin/env python3
"""Regenerates MANIFEST.json from the table below (keeps it schema-valid and in step with props/*.py)."""
import json, os, subprocess

VERIF = os.path.dirname(os.path.abspath(__file__))
props = [json.loads(l) for l in open(os.path.join(VERIF, 'properties.jsonl'))]

# property -> (category, technique, level text, level note, design ref)
CLAIMED = {
    'C05': ('model_checking', 'symbolic execution of rustc MIR (mirsym) + z3; native replay of counterexamples',
            'Bounded symbolic model checking of the real writer/reader pair: every obligation (read(write(x)) == x field by field, no error flag, framing) is discharged by z3 for all values of the symbolic inputs (u64/u32 ids, flags, chars) on every feasible path; sizes (string lengths, list lengths, nesting) are bounded as stated in the evidence.',
            'Trusted: mirsym interpreter and its closed list of std environment models (byte buffers, HashMap as association list, format!), validated per run by differential execution against the native build; z3. Outside: string lengths beyond the boundary set, symbolic decimal payloads.',
            'DESIGN.md §4 C05'),
    'C18': ('fault_enumeration', 'symbolic execution of rustc MIR (mirsym) + z3 with the truncation point / failing write call as solver variables',
            'Symbolic fault position: the cut length of the image and the index/size of the failing or short write are solver variables, so each feasible path is one class of fault positions and all classes are explored for the sample images; obligations: Err and no panic on every prefix, complete image under short writes, has_error() after a failed write.',
            'Trusted: mirsym and its byte source/sink models (sink faults come from a Rust Write impl in the harness crate, interpreted like all other code). Outside: corrupted images, larger models.',
            'DESIGN.md §4 C18'),
    'C19': ('model_checking', 'symbolic execution of rustc MIR (mirsym) + z3 over symbolic Unicode chars; Kani/CBMC cross-check on a smaller bound (thorough tier)',
            'Bounded symbolic model checking of the real Transition::nameMatch against a token-prefix oracle: all descriptor/name strings up to the stated lengths over every Unicode scalar value (one path per UTF-8 width pattern, z3 discharges the equivalence for all chars of that pattern); thorough tier re-decides a smaller bound bit-precisely with Kani.',
            'Trusted: mirsym string models (starts_with/len/as_bytes on symbolic chars), validated against native runs and (thorough) Kani; the oracle in harness/src/h_match.rs. Outside: longer strings, reader-side normalisation.',
            'DESIGN.md §4 C19'),
    'C01': ('model_checking', 'symbolic execution of rustc MIR (mirsym) + z3: inductive step of the real selectTransitions/microstep from every legal pre-state',
            'Bounded symbolic model checking, inductive: from an arbitrary legal configuration and arbitrary legal history record (not only reachable ones) the real selection + microstep code is executed with symbolic transitions (source, targets, type, event, guard outcome); z3 discharges, on every feasible path, that the post-configuration is legal, duplicate-free, the history invariant holds again and no state is entered while active / exited while inactive. One inductive step covers event histories of any length for the catalogue shapes.',
            'Trusted: mirsym + environment models; the legality/invariant predicates in harness/src/sc.rs and h_fsm.rs. Bounds: 15 catalogue shapes (<= 11 states), both kinds of root (entered at start-up / never entered, as the readers build it), T <= 2 symbolic transitions. One known finding (history target inside its un-exited parent re-runs onentry, W3C-literal).',
            'DESIGN.md §4 C01, §2.5, Appendix A'),
    'C02': ('model_checking', 'symbolic execution of rustc MIR (mirsym) + z3 against an independently written reference semantics (differential, symbolic inputs)',
            'Bounded symbolic model checking against a reference: the ordered enabled-transition set, the guard-evaluation log, the exact sequence of exit/transition/entry bodies, the resulting configuration as an ordered set and the internal queue produced by the real code equal those of the bit-mask reference implementation of the W3C algorithm, as solver-checked equalities on every feasible path; hash-map iteration order is an arbitrary permutation, so order-dependence would surface as a refuted equality (determinism).',
            'Trusted: mirsym + environment models; the reference semantics in harness/src/sc.rs (cross-checked by the oracle-free C01 obligations and by native differential runs). Bounds as C01.',
            'DESIGN.md §4 C02, §2.5'),
    'C06': ('model_checking', 'symbolic execution of rustc MIR (mirsym) + z3 on shapes with shallow/deep history (compound and parallel parents)',
            'Same runs as C02 restricted to the history obligations: after exiting an owner the stored history equals the reference record computed from the pre-configuration (shallow: active children, deep: active atomic descendants); a transition targeting a history state enters exactly the reference set, and the default-transition content appears in the trace iff nothing was recorded, after the owner onentry.',
            'Trusted: as C02. Bounds: 7 catalogue shapes with history (shallow in compound, deep, shallow inside a parallel region, shallow owned by a parallel, deep above nested parallels, deep owned by one region of a parallel, deep above a parallel with compound regions), every legal recorded value, T <= 2.',
            'DESIGN.md §4 C06'),
    'C03': ('model_checking', 'symbolic execution of rustc MIR (mirsym) + z3: the real mainEventLoop on a pre-loaded queue vs a reference macrostep loop',
            'Bounded symbolic model checking against a reference: the real mainEventLoop + exitInterpreter run on an external queue holding symbolic events followed by the platform cancel event, with symbolic transitions (trigger in {event-less guarded, external, internal}), bodies that raise internal events and an arbitrary legal start configuration; the complete trace of events made current, guard evaluations and content bodies equals the reference run-to-completion loop on every feasible path (event-less first, then oldest internal event, external events once each in order, no effect for events without transition).',
            'Trusted: mirsym + environment models (mpsc as FIFO), reference loop in harness/src/sc.rs. Bounds: shapes <= 5 states quick (<= 9 thorough), T <= 3, 2 external events, <= 6 raises, <= 12 microsteps; live-locking documents excluded.',
            'DESIGN.md §4 C03'),
    'C07': ('model_checking', 'symbolic execution of rustc MIR (mirsym) + z3: done events in microsteps, exitInterpreter and the loop tail vs reference',
            'Bounded symbolic model checking: (a) microsteps entering final states on shapes with finals at every level and inside parallel regions produce exactly the reference internal queue (done.state.<parent>, then done.state.<parallel> iff every region is final) and clear `running` exactly for a top-level final; (b) exitInterpreter from every legal configuration of every catalogue shape runs each onexit once in exit order, reports the final configuration, and sends done.invoke.<id> to the parent iff a parent session exists and a top-level final is active; (c) the main loop stops processing after a top-level final / cancel with events still queued.',
            'Trusted: as C02/C03; platform send replaced by a recording stub. Bounds as C01/C03.',
            'DESIGN.md §4 C07'),
    'C08': ('model_checking', 'symbolic execution of rustc MIR (mirsym) + z3: the real RFsmExpressionDatamodel::executeContent on blocks of real content structs',
            'Bounded symbolic model checking: for a block [marker, X, marker] with X ranging over every element kind and every error position, symbolic branch conditions and foreach lengths, the executed order (a marker trail in the data store), the exact error.execution / raised events on the internal queue, the abort behaviour and the assigned values equal the SCXML expectation on every feasible path. The real lexer, parser and evaluator of the rfsm-expression language are interpreted.',
            'Trusted: mirsym + environment models; expectations coded in harness/src/h_content.rs from the Recommendation. Outside: ECMAScript model, deeper nestings. Five defects repaired (99b1914, e7a4a83, 883c814, 0e379e1, c038114).',
            'DESIGN.md §4 C08'),
    'C10': ('model_checking', 'symbolic execution of rustc MIR (mirsym) + z3 over arbitrary i64 operands through the real lexer/parser/evaluator; Kani/CBMC for the f64 operator kernel (thorough)',
            'Bounded symbolic model checking: Integer operators equal saturating arithmetic for all i64 pairs; every expression "a op1 b op2 c" (and three-operator chains) over {+,-,*,%} parsed and evaluated by the real code equals the precedence/left-associativity oracle for all operand values (z3 equalities over 64-bit vectors); cache vs fresh compilation agree for all values; assignment semantics; a 28-item catalogue fixes mixed-type, comparison, logic, aggregation, member/index and spelling cases. Thorough: Kani decides Double contagion of + and - and the mixed less-than comparison, without panic, for any f64 x any i64 (multiplication, division and remainder of arbitrary doubles did not finish in CBMC within 25 minutes and are covered on concrete doubles by engine M only).',
            'Trusted: mirsym + environment models, the oracle table in harness/src/h_expr.rs. Two repaired defects (right-to-left grouping, d1ab216; Integer comparisons through f64, 0ef8045); one known finding (minus directly before a digit).',
            'DESIGN.md §4 C10'),
    'C11': ('model_checking', 'symbolic execution of rustc MIR (mirsym) + z3: panic / self-deadlock / non-termination reachability with symbolic characters and aliasing operands',
            'Bounded symbolic model checking of crash freedom: every feasible path of parsing a text of 2 (thorough: 3) arbitrary Unicode characters in three contexts, of evaluating 24 malformed/extreme texts, of Integer % for all operand pairs and of 10 expressions whose operands alias the same stored value ends with a value or an error: no panic terminator reachable, no lock on a mutex already held by the thread (holder-tracking model), step budget not exhausted; the store is usable afterwards.',
            'Trusted: mirsym + environment models (parse::<f64>/<i64> of symbolic text over-approximated). Outside: longer arbitrary texts, unbounded nesting depth. Six defects repaired (1f9d77f, 4a14edf, e7620cf, 7367918, 390bac5, d7cbd79).',
            'DESIGN.md §4 C11'),
    'C12': ('model_checking', 'symbolic execution of rustc MIR (mirsym) + z3: panic / wedge reachability on the platform entry points under a symbolic environment',
            'Bounded symbolic model checking of crash freedom and error routing: real SendParameters::execute, Datamodel::send, ScxmlEventIOProcessor::send/send_to_session and FsmExecutor::send_to_session run with a solver-chosen environment (target form, existence of parent/child/addressed session, processor type, which argument expression fails); no panic outcome is feasible, the sender internal queue holds exactly the error event the Recommendation assigns, nothing is delivered on failure, and a main loop that executes a failing send inside a transition still terminates on cancel.',
            'Trusted: mirsym + environment models (catch_unwind modelled without mutex poisoning: a panic unwinding through a lock taken inside the closure is inconclusive). Also decided: a child document that the reader rejects (8 kinds), started through the executor the way Fsm::invoke does, comes back as Err to the invoking thread (h_c12_invoke_bad). Outside: other invoke start failures, ECMAScript, documents rejected as the document of the session itself, unregistered data model names. Five defects repaired (a03f98d, 343de79, d728eed, 6726d26, 9dcee17).',
            'DESIGN.md §4 C12'),
    'C15': ('model_checking', 'symbolic execution of rustc MIR (mirsym) + z3: real send path on a 3-session topology, symbolic target form / payload / topology',
            'Bounded symbolic model checking: for every target form (literal and targetexpr), processor type spelling, payload shape and parent/child topology exactly one queue grows by exactly one event and it is the addressed one; name, sendid, params/namelist/content values (arbitrary i64) arrive unchanged; origintype/origin are set and a reply sent to origin reaches the sender external queue; all other queues stay unchanged.',
            'Trusted: mirsym + environment models (mpsc FIFO). Outside: id uniqueness under concurrent creation (atomics contract), more than 3 sessions.',
            'DESIGN.md §4 C15'),
    'C16': ('model_checking', 'symbolic execution of rustc MIR (mirsym) + z3 with a virtual timer; the delay is a solver variable',
            'Bounded symbolic model checking with a virtual timer: for every delay >= 400 ms (any u64, incl. negative-as-i64) a delayed send delivers nothing when it executes, is registered under its send id, illegal delays / #_internal raise error.execution; <cancel> removes exactly that id in that session; firing delivers exactly once, with the argument values evaluated at execute time; dropping the session (timer) before the due time discards the event.',
            'Trusted: mirsym + virtual timer model of crate `timer`; real-time ordering is the timer crate. Outside: delay spellings, thread interleavings.',
            'DESIGN.md §4 C16'),
    'C17': ('other', 'lock-order prediction: symbolic execution of every thread role (mirsym, holder-tracking mutex model) + z3 cycle query over the recorded acquisition edges',
            'Not a deadlock-freedom proof. Every thread role of a 3-session scenario (host starting a session, the session thread, a session executing <send> with a solver-chosen target, the timer thread firing a delayed send, host send, child cancel, executor shutdown) is executed symbolically on the real code; each acquisition records the locks already held; z3 decides whether two acquisitions by different threads close a cycle without a common gate lock (GoodLock). unsat on all explored role paths = no lock-order inversion among them. Interleavings of real OS threads are not explored by this family of technique.',
            'Trusted: the mutex model (lock/try_lock/guard drop from the drop-elaborated MIR), sequential composition of roles. Two inversions were predicted and repaired (session global data vs I/O processor between an invoking session and its timer thread, 9a6307d, natively reproduced by seeded/C17_baseline_invoke_vs_timer_reproducer.rs); the first one (executor state vs I/O processor) was predicted, reproduced natively by harness/src/bin/stress_c17.rs and repaired (f2d726f).',
            'DESIGN.md §4 C17'),
    'C09': ('model_checking', 'symbolic execution of rustc MIR (mirsym) + z3: In() over all configurations, read-only system variables, _event fields, binding order',
            'Bounded symbolic model checking: In(id) (rfsm-expression action and null-datamodel condition) equals membership for every subset of states and every queried state; assignments (via <assign> and via script) to _sessionid, _name, _ioprocessors, _event and the standard fields of _event fail, raise error.execution and leave the value intact while a declared location changes; the seven _event fields equal the event for all presence combinations / payload shapes / values; with early binding every state is initialised with values before any content, with late binding exactly at first entry before onentry and never again (real Fsm::interpret with re-entry).',
            'Trusted: mirsym + environment models (hash-map iteration pinned to insertion order in the read-only/event harnesses, stated in the evidence). Outside: ECMAScript datamodel. Seven defects repaired (9f30b1b, e56af38, ded3330, de88f12, 5cd4102, 3cb24c4, 03a174e); one known finding (members below _event.data are writable).',
            'DESIGN.md §4 C09'),
}
CLAIMED['C04'] = ('model_checking', 'symbolic execution of rustc MIR (mirsym) + z3: the real scxml_reader handlers on documents rendered from a symbolic statechart model; quick-xml replaced by an event-source model validated against the native build',
    'Bounded symbolic model checking above the lexical layer: every document rendered from the 15 catalogue shapes with a solver-chosen transition (source, targets incl. forward references, type, event spelling, cond), each spelling of the initial configuration, quoting and binding is parsed by the real reader code and the resulting Fsm is compared element by element with the model it was rendered from (nesting, kinds, document order, initial, history, onentry/onexit, transition fields); if/elseif/else chains and foreach keep order and nesting; data, invoke, send, donedata, param, content fields arrive unchanged under namespace prefixes, comments, both quote characters and entity references; equivalent descriptor spellings give the same model.',
    'Trusted: mirsym + environment models; the quick-xml event-source model (mirsym/natives_xml.py), cross-checked on every run by executing sampled documents natively with the real quick-xml. Outside: byte-level tokenisation, XInclude (file I/O), CDATA text, larger documents. Three defects repaired (namespace-prefixed elements with child text panicked; entity references in element text kept verbatim; invoke document ids all 0); two known findings (<log> without expr dropped; comment/CDATA inside element text kept verbatim).',
    'DESIGN.md §4 C04')

CLAIMED['C14'] = ('model_checking', 'symbolic execution of rustc MIR (mirsym) + z3: the real mainEventLoop/enterStates/exitStates/invoke/cancelInvoke on statecharts with <invoke> elements vs a reference loop; a real child session started through the executor',
    'Bounded symbolic model checking of the part of the life cycle that one session thread decides: invokes start exactly for the states entered and still active at the end of a macrostep (never for a state entered and left inside it), once, in entry/document order; leaving a state cancels exactly its running invokes and no others; an event stamped with the invoke id of a running child runs exactly that invoke\'s <finalize> before transitions are selected; events from sessions that are not (any more) invoked are not processed; every external event is forwarded to every running child with autoforward; the child-session table holds exactly the running children; a real child started from inline XML takes passed values only for <data> it declares, and its parent receives the child\'s events first and done.invoke.<id> once, last, all stamped with the invoke id.  The orders of arrival [host event, child event / stale event / done.invoke] are enumerated instead of thread schedules.',
    'Trusted: mirsym + environment models (thread spawn = registered closure run at join, mpsc FIFO), the reference loop in harness/src/h_inv.rs. Outside: real thread races between parent and child (stated in the evidence), src= loading, idlocation. Three defects repaired (invoke document ids all 0 when read from XML; autoforward only for events coming from the same child; done.invoke of a cancelled child processed).',
    'DESIGN.md §4 C14')

NA_REASON = {
    'C13': 'The claim quantifies over interleavings of N producer threads with the session thread. Symbolic execution of the real code (mirsym; Kani has no concurrency support) runs one thread at a time; std::sync::mpsc is an environment model (a FIFO list), so "exactly once, per-sender order" would hold by construction of the model, not of the code: the check would be vacuous. The sequential residue (each dequeued event is processed to completion before the next dequeue, in queue order) is decided under C03. The property needs a schedule-exploring technique (loom/shuttle-style), which is outside this task\'s technique family.',
    'C14': 'Sequential parts of the invoke life cycle are decided elsewhere (done.invoke on exitInterpreter: C07; routing of #_parent / #_<invokeid> sends and error events: C12/C15; cancel event ends the main loop: C03/C07). The remainder of the claim is about the race between child events, child completion and parent-side cancellation across two OS threads and an executor-owned session table; the engine executes threads one after another in a fixed composition, so the "for every outcome of that race" quantifier cannot be encoded, and the start-up path (executor thread spawn + XML/file loading of the child document) exceeds what the environment models cover soundly.',
    'C20': 'The BasicHTTP processor is Rocket (async server on tokio) on the receiving side and ureq (blocking HTTP client over TcpStream) on the sending side; neither the async runtime nor socket I/O can be encoded by the MIR executor or by Kani (no async/FFI/network models), and the feature is not part of the encodable build (the MIR dump and harness crate build without BasicHttpEventIOProcessor because rocket\'s proc-macro and runtime crates pull in code far beyond the environment-model surface). A model of the HTTP layer would decide nothing about the real code.',
}

checks = []
for p in props:
    pid = p['id']
    if pid in CLAIMED:
        cat, tech, text, note, ref = CLAIMED[pid]
        checks.append({
            'property_id': pid,
            'quick_cmd': './check %s --tier quick' % pid,
            'thorough_cmd': './check %s --tier thorough' % pid,
            'evidence_file': '/verif/evidence/%s.json' % pid,
            'replay_cmd_template': './check %s --replay {path}' % pid,
            'engine': 'mirsym',
            'level_claimed': {'category': cat, 'text': text, 'design_ref': ref},
            'level_note': note,
            'technique': tech,
        })
na = [{'property_id': p['id'], 'reason': NA_REASON.get(p['id'], 'check not built yet (work in progress; see DESIGN.md §4)')} for p in props if p['id'] not in CLAIMED]
hook_commits = subprocess.run(['git', '-C', '/repo', 'log', '--format=%h %s'], capture_output=True, text=True).stdout.strip().split('\n')
hook_commits = [l.split()[0] for l in hook_commits if 'verif hooks' in l]
m = {
    'version': 1,
    'setup_cmd': './setup.sh',
    'hooks': {
        'guard': 'Verif_Hooks',
        'enable': 'cargo feature Verif_Hooks (the harness crate depends on ruFsm with default-features=false, features serializer,RfsmExpressionModel,xml,Verif_Hooks); engine M reads private items from the MIR dump and needs no hook, the hooks serve native replay and Kani',
        'baseline_off_cmd': 'cd /repo && cargo test --workspace --no-fail-fast --offline',
        'source_commits': hook_commits,
        'add_only': True,
    },
    'engines': [
        {'name': 'mirsym', 'path': '/verif/mirsym', 'serves_properties': sorted(CLAIMED), 'kind_free_text': 'symbolic executor for rustc MIR dumps of /repo and of the harness crate (regenerated from the current tree on every run), z3 decides path feasibility and proof obligations, counterexamples are replayed natively'},
    ],
    'checks': checks,
    'notes': 'Solver-based checking of the real code: see DESIGN.md. exit 0 = held within the stated bounds; exit 1 = VIOLATION that reproduces natively; exit 2 = inconclusive.',
    'not_applicable': na,
}
json.dump(m, open(os.path.join(VERIF, 'MANIFEST.json'), 'w'), indent=1)
print('MANIFEST.json: %d checks, %d not_applicable' % (len(checks), len(na)))
