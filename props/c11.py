"""C11 — parsing and evaluation terminate with a value or an error (engine M: panic / hang reachability with symbolic characters and aliasing operands)."""
LEVEL = 'model_checking'


def run(c):
    c.assumptions += [
        'a Rust panic, a lock on a mutex the running thread already holds (holder-tracking mutex model) or an exhausted step budget on any feasible path is a violation',
        'str::parse::<f64>/<i64> on symbolic text over-approximated (fails or yields an arbitrary value)',
    ]
    c.outside += ['texts with more than 3 arbitrary characters (plus fixed context)', 'stack exhaustion on deeply nested input (recursion depth is linear in nesting; unbounded depth is not decided)']
    c.run_m('h_c10_intops', expect_checks=(1004,), expect_cover=(1001,), only={1004}, bounds={'x % y': 'any i64 pair incl. y = 0 and i64::MIN % -1'})
    c.run_m('h_c11_alias', expect_checks=(1101,), expect_cover=(1101,), bounds={'expressions': '10 with aliasing operands (a = a, a ?= a, arr = arr, a = a = a, ...)', 'a': 'any i64'})
    c.run_m('h_c11_texts', expect_checks=(1120,), expect_cover=(1120,), bounds={'texts': '30 malformed / extreme texts (incl. negative and out-of-range indices)'})
    c.run_m('h_c11_lex2', expect_checks=(1110,), expect_cover=(1110,), bounds={'text': '2 arbitrary Unicode chars in 3 contexts'}, diff_samples=4)
    if c.tier == 'thorough':
        c.run_m('h_c11_lex3', expect_checks=(1110,), expect_cover=(1110,), bounds={'text': '3 arbitrary Unicode chars in 3 contexts'}, diff_samples=4, time_cap=3000)
