"""Harness sets of the statechart step harness (h_fsm.rs) shared by C01, C02, C06, C07."""
import os

QUICK = [
    ('h_start_all', 'start-up of all 15 catalogue shapes, early/late binding'),
    ('h_sc1_s0', 'flat, T=1 full'), ('h_sc1_s1', 'compound, T=1 full'), ('h_sc1_s2', 'depth 3, T=1 full'),
    ('h_sc1_s3', 'parallel 2 regions, T=1 light'), ('h_sc1_s4', 'shallow history, T=1 full'), ('h_sc1_s5', 'deep history, T=1 full'),
    ('h_sc1_s6', 'finals, T=1 full'), ('h_sc1_s7', 'parallel with finals, T=1 light'), ('h_sc1_s8', 'parallel + history in region, T=1 light'),
    ('h_sc1_s9', 'forward references (ids != document order), T=1 full'), ('h_sc1_s10', 'history owned by parallel, T=1 light'),
    ('h_sc1_s11', 'nested parallel + deep history, T=1 light'),
    ('h_sc1_s12', 'deep history owned by one region of a parallel, T=1 light'),
    ('h_sc1_s13', 'parallel with a final nested two levels below a region, T=1 light'),
    ('h_sc1_s14', 'deep history above a parallel with two compound regions, T=1 light'),
    ('h_sc1e_s1', 'event-less selection + late binding'), ('h_sc1e_s4', 'event-less + late, history'), ('h_sc1e_s6', 'event-less + late, finals'),
    ('h_sc2r_s3', 'two transitions in different regions of a parallel state'),
    ('h_sc1i_s1', 'reader-built root (never in the configuration) + pre-state configuration list in reverse document order, compound'), ('h_sc1i_s3', 'reader-built root, parallel'), ('h_sc1i_s4', 'reader-built root, history'),
    ('h_sc1i_s6', 'reader-built root, finals'), ('h_sc1i_s7', 'reader-built root, parallel with finals'),
]
THOROUGH_EXTRA = [
    # measured on 16 cores: 7 s .. 200 s each, about 13 min together
    ('h_sc1f_s3', 'T=1 full'), ('h_sc1f_s7', 'T=1 full'), ('h_sc1f_s8', 'T=1 full'), ('h_sc1f_s10', 'T=1 full'), ('h_sc1f_s11', 'T=1 full'),
    ('h_sc1e_s3', 'event-less'), ('h_sc1e_s5', 'event-less'), ('h_sc1e_s9', 'event-less'),
    ('h_sc2r_s7', 'T=2 restricted'), ('h_sc2r_s1', 'T=2 restricted'),
    # not part of a tier (each > 5.5 min on 16 cores; they exist as harnesses): h_sc1e_s8, h_sc2_s0 .. h_sc2_s11 (two fully symbolic transitions)
]
BOUNDS = {'states': '<= 11 (15 catalogue shapes: nesting <= 4, <= 2 parallel states, <= 1 history state, finals at every level)',
          'ordinary transitions': 'T = 1 (all shapes) and T = 2 (parallel shapes quick; more shapes thorough), each with symbolic source, 0..2 targets, type, event, guard outcome',
          'pre-state': 'every legal configuration of the shape x every legal recorded history value (inductive step)'}
ASSUME = [
    'documents satisfy Conformant(M) of DESIGN.md Appendix A (legal state specifications, history targets stand for their parent)',
    'datamodel replaced by the logging stub VDm (guards are solver-chosen values true/false/error; content bodies only log)',
    'the <scxml> element is state 1; two kinds of root are explored: entered at start-up (external initial transition) and never entered (internal initial transition, which is what the XML and binary readers build): h_sc1i_*, h_start_all, h_exit',
    'pre-state is an arbitrary legal configuration with an arbitrary legal history record (inductive mode); the history invariant is re-established (obligation 102)',
    'std containers modelled (Vec, HashMap as association list with arbitrary stable iteration order, Mutex with holder tracking)',
]
OUTSIDE = ['shapes outside the catalogue, more than 11 states, more than two symbolic transitions', 'two fully symbolic transitions on one shape (h_sc2_*) are in no tier (> 5 min per shape); T = 2 is explored with the second transition restricted to its region (h_sc2r_*)',
           'guards with side effects', 'sequences longer than one microstep are covered by induction over the pre-state, not enumerated']


def run_set(c, only, expect_step, expect_start):
    c.assumptions += ASSUME
    c.outside += OUTSIDE
    hs = list(QUICK) + (list(THOROUGH_EXTRA) if c.tier == 'thorough' else [])
    sub = os.environ.get('VERIF_SC_ONLY')       # development aid for sweeps over seeded changes; never set by a registered command
    if sub:
        hs = [x for x in hs if x[0] in sub.split(',')]
        c.outside.append('DEVELOPMENT SUBSET (VERIF_SC_ONLY=%s): not the registered check' % sub)
    for h, what in hs:
        exp = expect_start if h == 'h_start_all' else expect_step
        c.run_m(h, expect_checks=exp, expect_cover=((210,) if h == 'h_start_all' else (204,)), bounds=dict(BOUNDS, shape=what), only=only, diff_samples=2)
