"""C16 — delayed sends (engine M with a virtual timer: scheduled entries, guard-alive flags and firing are modelled; the delay is a solver variable)."""
LEVEL = 'model_checking'


def run(c):
    c.assumptions += [
        'crate `timer` modelled as a virtual timer: schedule_with_delay records (delay, closure, guard alive); dropping the Guard or the Timer kills the entry; the harness fires entries explicitly',
        'real-time behaviour of the timer thread ("not early", "earlier due time first") is a property of the timer crate and trusted',
    ]
    c.outside += ['delay spellings other than <integer><unit> for the 10 unit spellings x 4 magnitudes of h_c16_units (fractions, exponents, blanks); delay_ms values are symbolic in the other harnesses', 'timer/session thread interleavings', 'more than two pending sends per harness run']
    c.run_m('h_c16_sched', expect_checks=(1601, 1602, 1603, 1604, 1605, 1606), expect_cover=(1601,), bounds={'delay_ms': 'any u64 >= 400 (incl. values that are negative as i64)', 'target': "'' / #_internal", 'cancel': 'none / this id / another id'})
    c.run_m('h_c16_two', expect_checks=(1620,), expect_cover=(1620,), bounds={'two pending sends': 'without ids / one id / two ids / the same id twice', 'cancel of the first': 'both'})
    c.run_m('h_c16_fire', expect_checks=(1610, 1611, 1612, 1613), expect_cover=(1610,), bounds={'param value': 'any i64, changed after the send executed', 'session dropped before due time': 'both'})
    c.run_m('h_c16_units', expect_checks=(1630,), expect_cover=(1630,), bounds={'unit': 'd D h H m M s S ms MS', 'magnitude': '1, 2, 30, 1500'})
