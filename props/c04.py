"""C04 — the XML reader builds a model that mirrors the document (engine M above the lexical layer).

The real scxml_reader (ReaderState::process, start_element dispatch, every start_*/end_* handler, decode_attributes,
get_or_create_state_with_attributes, set_default_initial, the if/elseif/else region stack) is interpreted from MIR on documents
rendered by the harness from a statechart model; quick-xml's tokenizer is replaced by an event-source model (mirsym/natives_xml.py),
so what is decided is the mapping  XML event stream -> Fsm model,  not the tokenisation of bytes."""
LEVEL = 'model_checking'


def run(c):
    c.assumptions += [
        'quick-xml is replaced by an environment model producing the same event stream (Start/End/Empty/Text/Comment/Decl, trim_text, local names, attribute unescaping, read_to_end_into spans); the model is validated per run by differential execution: the same rendered documents go through the native build with the real quick-xml and every obligation and observation must agree',
        'documents are rendered from the statechart catalogue (15 shapes) with one solver-chosen ordinary transition (source, 0..2 targets incl. forward references, type, event spelling, cond), three spellings of the initial configuration, both quote characters, early/late binding; structural choices are concretised path by path (text rendering needs concrete structure), characters inside attribute values are solver variables restricted to ASCII letters and digits',
        'element harness: data declarations (expr / child text / empty), two invokes (literal and *expr forms, params / content expr / content text, finalize), send (literal and *expr forms) between two raises, donedata; lexical variants: namespace prefix on every element, comments between elements, quote character, entity references in attribute values and element text',
    ]
    c.outside += [
        'byte-level tokenisation (quick-xml itself), encodings other than UTF-8, DTDs',
        'XInclude (reads files through std::fs; the included text then takes the same path as the harness documents)',
        'documents larger than the catalogue shapes; nestings of executable content deeper than if-chains with up to 3 elseif inside onentry',
    ]
    ALL = (401, 402, 403, 404, 405, 406, 407, 408, 409, 410)
    c.run_m('h_c04_struct', expect_checks=ALL, expect_cover=(401,), diff_samples=6,
            bounds={'shapes': 15, 'transition': 'every conformant (source, <=1 target incl. forward references, type)', 'lexical choices': 'derived from the transition (each value of initial spelling / suffix / quote / binding / event form / cond occurs)'})
    c.run_m('h_c04_lex', expect_checks=ALL, expect_cover=(401,), diff_samples=6,
            bounds={'shapes': '4 (flat, parallel+history, deep nesting, history in parallel)', 'event form': 5, 'cond': 2, 'initial spelling': 3, 'descriptor suffix': "'', '.', '.*'", 'quotes': 2, 'binding': 2,
                    'symbolic characters': 'one inside an event descriptor, one inside the condition text: any ASCII letter or digit (solver variables)'})
    if c.tier == 'thorough':
        c.run_m('h_c04_struct2', expect_checks=ALL, expect_cover=(401,), diff_samples=6, bounds={'shapes': 15, 'transition': 'every conformant (source, <=2 targets, type)'})
        c.run_m('h_c04_lex_all', expect_checks=ALL, expect_cover=(401,), diff_samples=6, bounds={'shapes': 15, 'lexical product': 360, 'symbolic characters': 2})
    c.run_m('h_c04_content', expect_checks=(420, 421, 422, 423), expect_cover=(420,), diff_samples=6,
            bounds={'elseif branches': '0..3', 'else': 'with/without', 'elements per branch': '1..2', 'foreach after the if': 'with/without', '<log> without expr before the if': 'with/without'})
    c.run_m('h_c04_descr', expect_checks=(430,), expect_cover=(430,), diff_samples=6, bounds={'spellings': "e, e., e.*, e.*., padded list, *"})
    c.run_m('h_c04_elems', expect_checks=(440, 441, 442, 443, 444, 445, 446, 447, 448, 449, 450, 451), expect_cover=(440,), diff_samples=8,
            bounds={'prefix': 2, 'quotes': 2, 'comments': 2, 'payload': 'params / content expr / content text', 'data form': 'expr / text / empty / text+comment / CDATA', 'send form': 'literal / expr', 'autoforward': 2})
