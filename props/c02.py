"""C02 — each microstep takes the W3C optimal transition set, in the prescribed order (engine M against the reference semantics)."""
from props import scset
LEVEL = 'model_checking'


def run(c):
    c.assumptions.append('reference semantics: bit-mask implementation of the W3C algorithm in harness/src/sc.rs (trusted after review; cross-checked by the oracle-free obligations of C01)')
    scset.run_set(c, only={201, 202, 203, 204, 205, 210, 211}, expect_step=(201, 202, 203, 204, 205), expect_start=(210, 211))
