"""C03 — run to completion (engine M: the real mainEventLoop on a pre-loaded external queue vs the reference macrostep loop)."""
LEVEL = 'model_checking'

QUICK = ['h_queues', 'h_loop_s0', 'h_loop_s1', 'h_loop_s6', 'h_loopi_s1']
THOROUGH = QUICK + ['h_loop_s4', 'h_loop3_s0']      # measured: 50 s and 75 s; h_loop_s3/_s7 (parallel shapes) and the fully symbolic h_loopf_* exceed 5 min each and are in no tier


def run(c):
    c.assumptions += [
        'std::sync::mpsc modelled as an unbounded FIFO queue (recv on an empty queue ends the path as blocked; every harness ends its queue with the platform cancel event)',
        'datamodel = logging stub VDm: set_event, guard evaluations and content bodies are the observable trace; bodies may raise the internal event i1 (at most 6 raises per run)',
        'documents: Conformant(M); at most one event-less transition, no event-less self loops (live-locking documents are outside the bound); runs settling within 12 microsteps',
        'pre-state: arbitrary legal configuration, empty history, optional pending internal event',
    ]
    c.assumptions += ['termination is part of the claim: a path of the real loop that exhausts the step budget (3 M MIR statements; the longest legitimate path needs < 100 k) counts as a hang and is reported if the native replay does not terminate either']
    c.outside += ['real thread interleavings on the external queue (C13: not applicable)', 'more than 3 transitions / 3 external events', 'invoke processing inside the loop (C14)']
    for h in (QUICK if c.tier == 'quick' else THOROUGH):
        if h == 'h_queues':
            c.run_m(h, expect_checks=(310,), expect_cover=(310,), only={310}, bounds={'raises': '1..3'})
        else:
            c.run_m(h, expect_checks=(301, 302), expect_cover=(301,), only={301, 302}, diff_samples=3, env={'budget_is_hang': True},
                    bounds={'transitions': '2..3 (source, target, trigger in {event-less guarded, e1, i1}, raise in body)', 'external events': '2 symbolic (e1|e2) + cancel'})
