"""C06 — history states record and restore (engine M; shapes with shallow/deep history in compound and parallel parents)."""
from props import scset
LEVEL = 'model_checking'


def run(c):
    c.assumptions.append('obligation 601: recorded history after the microstep equals the reference (values taken from the configuration before exiting); 203/204: a target history state re-enters exactly the recorded states, default content runs iff nothing was recorded')
    scset.run_set(c, only={601, 203, 204}, expect_step=(601, 203, 204), expect_start=(210,))
