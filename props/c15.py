"""C15 — SCXML event I/O processor routing (engine M: real SendParameters::execute -> Datamodel::send -> ScxmlEventIOProcessor::send on a 3-session topology)."""
LEVEL = 'model_checking'


def run(c):
    c.assumptions += [
        'topology: sender session 1, optional parent session 2, optional invoked child "child" = session 3, registered by hand on one FsmExecutor (no session threads run)',
        'std::sync::mpsc modelled as FIFO queues; the real rfsm-expression datamodel evaluates target/params/content expressions',
        'uniqueness of generated ids (stateid.platformid, session ids) rests on AtomicU32::fetch_add and is not re-proved',
    ]
    c.outside += ['more than 3 sessions; concurrent session creation', 'BasicHTTP processor (C20)']
    c.run_m('h_c15_route', expect_checks=(1501, 1502, 1503, 1504, 1505, 1506, 1507), expect_cover=(1501,),
            bounds={'targets': "'' #_internal #_scxml_<id> #_parent #_<invokeid>, literal and targetexpr", 'type': 'default / scxml / full URI', 'payload': 'none / param / namelist / content / namelist+param / param location naming an array', 'value': 'any i64'}, diff_samples=4)
