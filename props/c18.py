"""C18 — partial or failed .rfsm I/O (engine M: the truncation point / the failing or short write call are solver variables)."""
LEVEL = 'fault_enumeration'


def run(c):
    c.assumptions += [
        'byte source &[u8] modelled as a buffer with symbolic length (the reader learns the cut only through EOF checks)',
        'byte sink: a harness-defined Write implementation (interpreted MIR) that accepts a symbolic 1..=len bytes or fails at a symbolic call index',
    ]
    c.outside += ['corrupted (not truncated) images', 'images of models other than the three sample models (<= 3 states, all element kinds)',
                  'short writes outside four windows of 6 consecutive write calls']
    c.run_m('h_c18_trunc', expect_checks=(1801, 1802), expect_cover=(1801,), bounds={'cut': 'every prefix length of 3 images (<= 400 bytes)'})
    c.run_m('h_c18_trunc_prim', expect_checks=(1811,), expect_cover=(1811,), bounds={'cut': 'every prefix length', 'v': 'any u64'})
    c.run_m('h_c18_sink', expect_checks=(1821, 1822), expect_cover=(1821,), bounds={'fail_at': 'call 0..60', 'short': '1..=len accepted per call'})
