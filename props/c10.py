"""C10 — rfsm-expression semantics (engine M on the real lexer/parser/evaluator; Kani for the float kernels in the thorough tier)."""
LEVEL = 'model_checking'


def run(c):
    c.assumptions += [
        'precedence table transcribed from the parser (5: * / % & ; 6: + - | ; 9: comparisons ; 10: == != ; 16: = ?=), equal priority binary operators group left to right, ! and assignments right to left',
        'operands of the symbolic precedence harnesses are Integer variables with arbitrary i64 values (oracle: saturating arithmetic); mixed-type semantics by a catalogue of 28 concrete expressions',
        'engine M has no symbolic floats: Double operands are concrete in M and arbitrary only in the Kani kernel (thorough tier)',
    ]
    c.outside += ['independence of whitespace/parentheses for arbitrary texts (only the catalogue spellings)', 'expressions with more than 3 binary operators over symbolic operands', 'ECMAScript datamodel']
    c.run_m('h_c10_intops', expect_checks=(1001, 1002, 1003, 1004, 1005, 1006), expect_cover=(1001,), bounds={'x, y': 'any i64', 'operators': '+ - * % == < <= > >='})
    c.run_m('h_c10_prec', expect_checks=(1010,), expect_cover=(1010,), bounds={'a op1 b op2 c': 'op in {+,-,*,%}, a any i64, b, c in 1..999, with and without parentheses'})
    c.run_m('h_c10_prec3', expect_checks=(1011,), expect_cover=(1011,), bounds={'a op1 b op2 c op3 d': 'op in {+,-,*}, operands any i64'})
    c.run_m('h_c10_tree', expect_checks=(1060,), expect_cover=(1060,), bounds={'a op1 b op2 c': 'every pair of the 13 binary operator spellings (169), grouping read off the parsed tree'})
    c.run_m('h_c10_cache2', expect_checks=(1035,), expect_cover=(1035,), bounds={'texts': '6 (incl. ?= on a missing map key / variable, an array literal whose stored value is modified between the evaluations), store changed between the evaluations'})
    c.run_m('h_c10_mixed', expect_checks=(1020,), expect_cover=(1020,), bounds={'catalogue': '38 concrete expressions'})
    c.run_m('h_c10_cache', expect_checks=(1030, 1031, 1032), expect_cover=(1030,), bounds={'a': 'any i64', 'texts': 4, 'id-less sources': 'two different texts in a row'})
    c.run_m('h_c10_assign', expect_checks=(1040,), expect_cover=(1040,), bounds={'value': 'any i64'})
    if c.tier == 'thorough':
        c.run_kani('h_expr::proofs::k_c10_float', 'h_c10_float', time_cap=1500, bounds={'x': 'any f64', 'y': 'any i64', 'operators': '+ - <'})
