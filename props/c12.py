"""C12 — no accepted document or event sequence crashes or wedges its session (engine M: panic reachability on the platform entry points)."""
LEVEL = 'model_checking'


def run(c):
    c.assumptions += [
        'a Rust panic (panic!, todo!, unwrap on None/Err, index out of range) or a self-deadlock on any feasible path is a violation',
        'environment: which sessions exist (parent / child / addressed id), which argument expression fails, which processor type is named — all solver-chosen',
    ]
    c.assumptions += ['h_c12_loop_survives iterates hash maps in insertion order (env map_order=insertion): set_event marks the 7 fields of the _event map read-only by iterating over it, the order cannot matter for the obligation and would otherwise multiply the paths by 7! per event']
    c.outside += ['documents the reader rejects as the document of the session itself (the reader reports them by panicking on the host thread, before a session exists)', 'invoke start failures other than a rejected child document (C14 harness)', 'a reader panic that unwinds through a held lock (mutex poisoning is not modelled: inconclusive)', 'ECMAScript datamodel', 'real thread scheduling']
    c.run_m('h_c12_send_errors', expect_checks=(1202, 1203, 1204, 1205, 1206, 1207, 1208, 1209), expect_cover=(1201,),
            bounds={'target forms': 9, 'types': 4, 'failing argument': 'none/targetexpr/eventexpr/param/namelist/delayexpr/typeexpr', 'parent/child present': 'both'}, diff_samples=4)
    c.run_m('h_c12_loop_survives', expect_checks=(1210,), expect_cover=(1210,), env={'map_order': 'insertion', 'budget_is_hang': True}, bounds={'failing send inside a transition body, then cancel': 'targets #_parent(no parent), #_child(none), unknown session, malformed, unsupported'})
    c.run_m('h_c12_invoke_bad', expect_checks=(1220, 1221), expect_cover=(1220,), diff_samples=9,
            bounds={'inline <invoke> content': '8 well-formed documents the reader rejects (transition type, <initial> + initial attribute, binding, nested <scxml>, <assign> expr + text, content outside a block, missing required attributes, unknown target) + 1 conformant'})
    # evaluation never panics (shared with C11) and executable content errors do not stop the interpreter (shared with C08)
    c.run_m('h_c11_texts', expect_checks=(1120,), expect_cover=(1120,), only={1120}, bounds={'texts': 30})
    c.run_m('h_c08_block', expect_checks=(803,), expect_cover=(801,), only={803}, bounds={'kinds': 13})
