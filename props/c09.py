"""C09 — In(), system variables, _event fields, data binding (engine M; the ECMAScript datamodel is outside)."""
LEVEL = 'model_checking'


def run(c):
    c.assumptions += [
        'In(): an arbitrary subset of the states is placed in the configuration (the predicate must not depend on legality); both the rfsm-expression and the null datamodel are run',
        'all C09 harnesses except binding iterate hash maps in insertion order (env map_order=insertion): set_event builds a 7-entry map and add_functions copies the action table entry by entry; the iteration order cannot matter for the obligations and would otherwise multiply the paths by k!',
        'binding: the logging stub VDm records initializeDataModel(state, set) calls; the real Fsm::interpret runs start-up plus three external events with re-entry of a state',
    ]
    c.outside += ['ECMAScript datamodel (boa engine): not encodable', 'In() at evaluation points inside a microstep is covered by the guard log of C02 only for the stub datamodel']
    ins = {'map_order': 'insertion'}
    c.run_m('h_c09_in', expect_checks=(901, 902), expect_cover=(901,), env=ins, bounds={'configuration': 'every subset of 7 states', 'queried state': 'each', 'datamodel': 'rfsm-expression / null'})
    c.run_m('h_c09_readonly', expect_checks=(911, 912, 913), expect_cover=(911,), env=ins, bounds={'locations': '_sessionid _name _event _ioprocessors _event.name _event.sendid _event.data _ioprocessors[..].location _event.data.<member> + one writable', 'via': '<assign>, script =, script ?=, <foreach item>, <foreach index>'})
    c.run_m('h_c09_event', expect_checks=(921, 922, 923), expect_cover=(921,), env=ins, bounds={'optional fields': 'all presence combinations', 'payload': 'none / params / content', 'value': 'any i64'})
    c.run_m('h_c09_in_shared', expect_checks=(941, 942), expect_cover=(941,), env=ins, bounds={'sessions': 'a session and a child started with a copy of its action table', 'configuration': 'every subset of 7 states', 'queried state': 'each'})
    c.run_m('h_c09_binding', expect_checks=(931,), expect_cover=(931,), bounds={'shapes': '3 (compound, parallel, finals)', 'binding': 'early / late', 'root': 'entered at start-up (external initial transition) / never entered (reader-built, internal)', 'events': 'leave and re-enter a state'})
