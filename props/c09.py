"""C09 — In(), system variables, _event fields, data binding (engine M; the ECMAScript datamodel is outside)."""
LEVEL = 'model_checking'


def run(c):
    c.assumptions += [
        'In(): an arbitrary subset of the states is placed in the configuration (the predicate must not depend on legality); both the rfsm-expression and the null datamodel are run',
        'read-only harnesses iterate hash maps in insertion order (env map_order=insertion): set_event builds a 7-entry map whose iteration order cannot matter for the obligations and would otherwise multiply the paths by 7!',
        'binding: the logging stub VDm records initializeDataModel(state, set) calls; the real Fsm::interpret runs start-up plus three external events with re-entry of a state',
    ]
    c.outside += ['ECMAScript datamodel (boa engine): not encodable', 'In() at evaluation points inside a microstep is covered by the guard log of C02 only for the stub datamodel']
    ins = {'map_order': 'insertion'}
    c.run_m('h_c09_in', expect_checks=(901, 902), expect_cover=(901,), bounds={'configuration': 'every subset of 7 states', 'queried state': 'each', 'datamodel': 'rfsm-expression / null'})
    c.run_m('h_c09_readonly', expect_checks=(911, 912, 913), expect_cover=(911,), env=ins, bounds={'locations': '_sessionid _name _event _ioprocessors _event.name _event.sendid _event.data + one writable', 'via': '<assign> and script'})
    c.run_m('h_c09_event', expect_checks=(921, 922, 923), expect_cover=(921,), env=ins, bounds={'optional fields': 'all presence combinations', 'payload': 'none / params / content', 'value': 'any i64'})
    c.run_m('h_c09_binding', expect_checks=(931,), expect_cover=(931,), bounds={'shapes': '3 (compound, parallel, finals)', 'binding': 'early / late', 'events': 'leave and re-enter a state'})
