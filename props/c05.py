"""C05 — binary .rfsm round trip (engine M: symbolic execution of the real writer + reader on byte buffers)."""
LEVEL = 'model_checking'


def run(c):
    c.assumptions += [
        'byte sink/source (Vec<u8>, &[u8]) modelled as exact byte buffers (environment model of byteorder/std::io)',
        'HashMap modelled as an association list whose iteration order is an arbitrary permutation fixed per unmodified map',
        'format!/Display of integers and floats modelled as exact decimal rendering; str::parse as its inverse on concrete text',
        'models the XML reader can produce: DoneData/Invoke/Send params are Some(non-empty) or None',
    ]
    c.outside += [
        'string lengths other than the boundary set {0,1,2,15,16,17,255,256,4095,4096}; more than 2 symbolic chars per string',
        'Integer/Double payloads outside the boundary catalogues (decimal text of a symbolic number is not encoded)',
        'behavioural equivalence of the reloaded machine is derived from field-wise identity + determinism (C02), not re-executed here',
        'models with more than 3 states / 2 content blocks per harness',
    ]
    q = c.tier == 'quick'
    c.run_m('h_c05_uint', expect_checks=(501, 503, 504, 505), expect_cover=(504,), bounds={'v': 'any u64'})
    c.run_m('h_c05_small', expect_checks=(511, 512, 513, 514), expect_cover=(513,), bounds={'u8,u32,u64': 'any', 'option string': 'None / Some'})
    c.run_m('h_c05_str', expect_checks=(521,), expect_cover=(521,), bounds={'byte length': '{0,1,2,15,16,17,255,256,4095,4096}', 'first/last char': 'any ASCII', 'multi-byte char': '2/3/4-byte'})
    c.run_m('h_c05_data', expect_checks=(531, 532, 533), expect_cover=(533,), bounds={'variants': 'all 10', 'nesting': '<=2'})
    c.run_m('h_c05_content', expect_checks=(571, 572, 573, 574, 575), expect_cover=(574,), bounds={'kinds': 'all 9 executable content types', 'ids': 'any u32', 'delay_ms': 'any u64'})
    c.run_m('h_c05_invoke', expect_checks=(581, 582, 583, 584, 585, 586), expect_cover=(585,), bounds={'doc_id, finalize': 'any u32'})
    c.run_m('h_c05_state', expect_checks=tuple(range(541, 551)), expect_cover=(549,), bounds={'ids': 'any u32', 'flags': 'all combinations'}, diff_samples=2)
    c.run_m('h_c05_transition', expect_checks=tuple(range(561, 569)), expect_cover=(566,), bounds={'ids': 'any u32', 'flags': 'all combinations', 'targets': '0..2', 'events': '0..2'}, diff_samples=2)
