"""C01 — the active configuration is always legal (engine M, inductive step over the real selectTransitions + microstep)."""
from props import scset
LEVEL = 'model_checking'


def run(c):
    scset.run_set(c, only={101, 102, 103, 110}, expect_step=(101, 102, 103), expect_start=(110,))
