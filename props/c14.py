"""C14 — invoke life cycle, the part one session thread decides (engine M).

The real mainEventLoop / enterStates / exitStates / invoke / cancelInvoke / exitInterpreter run on statecharts whose states carry
<invoke> elements; children are real sessions started through the executor from inline XML (their threads are registered, and
executed only where the harness joins them).  The races of the property (which of child event, done.invoke and cancellation wins
between two OS threads) are outside: the external queue is pre-loaded with every ORDER of those events instead."""
LEVEL = 'model_checking'


def run(c):
    c.assumptions += [
        'one session thread: the parent external queue is pre-loaded with [host event e1, X] or [X, e1], X in {event from a running child, event from a session that is not (any more) invoked, done.invoke.<id>}; the sender of X is the invoke of the source or target of the first transition or the second invoke of state 2',
        'transitions: t0 on e1 from any state to any state (its body may raise i1), t1 leaves t0\'s target again either event-less or on i1: states are entered and left inside one macrostep',
        'every <state>/<parallel> except the root carries an <invoke> (state 2 carries two) with inline content, a finalize block and autoforward on even states; children of the start configuration are registered by hand so that the harness holds their queues',
        'datamodel = logging stub (VDm): content bodies, guard evaluations, events made current, finalize bodies and the typeexpr evaluation that begins every invoke are logged in order and compared with a reference loop written from the W3C algorithm',
        'hash maps are iterated in insertion order (env map_order=insertion): the child-session table is iterated by exitStates, exitInterpreter and the autoforward loop; the obligations compare cancel targets and forwarded events per child (order-free), so the order cannot matter, and k! orders per iteration would multiply the paths',
        'child harness: rfsm-expression datamodel, real parse of the child document, thread body executed at join',
    ]
    c.outside += [
        'relative timing of child events, child completion and parent-side cancellation across OS threads (the quantifier over schedules): only the orders of arrival in the parent queue are explored',
        '<invoke src=...> (file / URI loading), idlocation, typeexpr/srcexpr errors, nested invokes deeper than one level',
        'order of the cancel event relative to the onexit content of the exited state (the implementation cancels first, the W3C text after onexit; the property does not fix it)',
        '<finalize> for the done.invoke event itself (the implementation removes the child before finalize is looked up; the property speaks of events while the child runs)',
    ]
    B = {'transitions': 'every conformant (t0 src, t0 target, raise) x (t1 target, event-less / i1)', 'start configuration': 'every legal one', 'external events': 'both orders x 3 kinds x 3 senders', 'microsteps': '<= 12'}
    ALL = (1401, 1402, 1403, 1404, 1405)
    # termination belongs to the claim (an <invoke> that fails must not be retried forever): an exhausted step budget counts as a hang
    ins = {'map_order': 'insertion', 'budget_is_hang': True}
    c.run_m('h_c14_life_s0', expect_checks=ALL, expect_cover=(1401,), bounds=dict(B, shape='0: flat, 3 invoking states'), env=ins, step_budget=800_000, diff_samples=4)
    c.run_m('h_c14_life_s1', expect_checks=ALL, expect_cover=(1401,), bounds=dict(B, shape='1: compound state with two children (nested invokes: parent and child state both invoke)'), env=ins, step_budget=800_000, diff_samples=4)
    c.run_m('h_c14_child', expect_checks=(1450, 1451, 1452, 1453, 1454), expect_cover=(1450,), bounds={'passed values': 'any i64 x any i64', 'order of the pairs': 2}, env=ins, step_budget=800_000, diff_samples=4)
    if c.tier == 'thorough':
        c.run_m('h_c14_life_s2', expect_checks=ALL, expect_cover=(1401,), bounds=dict(B, shape='2: depth 3'), env=ins, step_budget=800_000, diff_samples=4)
        # (h_c14_life_s3 / _s7, parallel shapes with 7 invoking states, exist as harnesses but are not part of a tier: > 30 min each)
