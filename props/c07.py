"""C07 — final states, done events, clean shutdown (engine M)."""
from props import scset
LEVEL = 'model_checking'


def run(c):
    c.assumptions.append('done.state events: obligation 205 (internal queue after the microstep equals the reference: done.state.<parent> and, when every region is final, done.state.<parallel>); 701: running flag cleared exactly for a top-level final')
    c.assumptions.append('platform send replaced by a recording stub (VDm.send): done.invoke.<id> to #_scxml_<parent> is observed there')
    scset.run_set(c, only={205, 701, 204}, expect_step=(205, 701), expect_start=(211,))
    c.run_m('h_exit', expect_checks=(710, 711, 712, 713), expect_cover=(710,), only={710, 711, 712, 713}, bounds={'shapes': 'all 12', 'configuration': 'every legal one', 'parent session / report flag': 'both'})
    for h in (['h_loop_s6', 'h_loop_s0'] if c.tier == 'quick' else ['h_loop_s6', 'h_loop_s0', 'h_loop_s1', 'h_loop_s4', 'h_loop3_s0']):
        c.run_m(h, expect_checks=(302, 702, 703), expect_cover=(301,), only={302, 702, 703, 301}, env={'budget_is_hang': True}, bounds={'see': 'C03'})
