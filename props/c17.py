"""C17 — no deadlock on the platform's internal locks: lock-order prediction over symbolically executed thread roles.

Each thread role of the scenario (host starting a session, the session thread, a session executing <send>, the timer thread,
host send / shutdown, a session cancelling a child) is executed by engine M on the real code with the holder-tracking mutex model;
for every acquisition the set of locks already held is recorded.  A z3 query then asks for two acquisitions by different threads
that close a cycle (thread A holds x and acquires y, thread B holds y and acquires x) with no common gate lock held by both.
unsat = no lock-order inversion among the explored role paths; sat = a predicted deadlock (listed as a known finding when it is
the recorded one)."""
import z3

LEVEL = 'other'
KF_E_P_INVERSION = 1701


def predicted_cycles(lock_log):
    """lock_log: [(thread, held tuple, acquired)] of one path -> list of (edge_a, edge_b) cycles found by z3"""
    # thread 'main' is the harness itself building the topology (not a platform thread role)
    # roles T3 (executes <send>), T6 (cancels a child), T8 (executes <invoke>) and T9 (terminates with children) are all the thread of session 1: they cannot wait for each other
    same = {'T3': 'S1', 'T6': 'S1', 'T8': 'S1', 'T9': 'S1'}
    edges = [(same.get(t, t), frozenset(h), a) for t, h, a in lock_log if h and t != 'main']
    if not edges:
        return [], 0
    locks = sorted({a for _, _, a in edges} | {x for _, h, _ in edges for x in h})
    lid = {l: i for i, l in enumerate(locks)}
    threads = sorted({t for t, _, _ in edges})
    tid = {t: i for i, t in enumerate(threads)}
    s = z3.Solver()
    i, j = z3.Ints('i j')
    n = len(edges)
    s.add(i >= 0, i < n, j >= 0, j < n)
    # relations as z3 functions over edge indices
    thr = z3.Function('thr', z3.IntSort(), z3.IntSort())
    acq = z3.Function('acq', z3.IntSort(), z3.IntSort())
    holds = z3.Function('holds', z3.IntSort(), z3.IntSort(), z3.BoolSort())
    for k, (t, h, a) in enumerate(edges):
        s.add(thr(k) == tid[t], acq(k) == lid[a])
        for l in locks:
            s.add(holds(k, lid[l]) == (l in h))
    s.add(thr(i) != thr(j))
    s.add(holds(i, acq(j)), holds(j, acq(i)))
    # no gate lock: no lock held by both threads at these points
    for l in locks:
        s.add(z3.Not(z3.And(holds(i, lid[l]), holds(j, lid[l]))))
    out = []
    queries = 0
    while True:
        queries += 1
        if s.check() != z3.sat:
            break
        m = s.model()
        a, b = m[i].as_long(), m[j].as_long()
        out.append((edges[a], edges[b]))
        s.add(z3.Not(z3.And(i == a, j == b)), z3.Not(z3.And(i == b, j == a)))
        if len(out) > 50:
            break
    return out, queries


def lock_class(l):
    return ''.join(ch for ch in l if not ch.isdigit())


def run(c):
    c.assumptions += [
        'std::sync::Mutex modelled with holder tracking; every acquisition records the locks the running thread already holds',
        'thread roles are executed one after the other by the harness (no interleaving is explored); the cycle condition (GoodLock: opposite acquisition order, different threads, no common gate lock) is decided by z3 over the recorded edges',
        'lock classes: G<i> per-session global data, E executor state, P SCXML I/O processor, V data values, R queue receivers, F datamodel-factory registry',
    ]
    c.outside += ['deadlock freedom of all schedules: only order inversions among the explored role paths are predicted', 'BasicHTTP processor threads, tracer', 'more than one executor']
    r = c.run_m('h_c17_scenario', expect_checks=(1701,), expect_cover=(1701,), env={'collect_locks': True}, diff_samples=1,
                bounds={'roles': 9, 'send target': "'' #_internal #_scxml_<id> #_parent #_<invokeid>"})
    cycles = {}
    nq = 0
    nedges = 0
    for log in r.lock_logs:
        nedges += len([1 for _, h, _ in log if h])
        cs, q = predicted_cycles(log)
        nq += q
        for ea, eb in cs:
            key = tuple(sorted([(ea[0], tuple(sorted(lock_class(x) for x in ea[1])), lock_class(ea[2])), (eb[0], tuple(sorted(lock_class(x) for x in eb[1])), lock_class(eb[2]))]))
            cycles.setdefault(key, (ea, eb))
    c.tot['queries'] += nq
    c.harness_reports.append({'harness': 'lock-order query', 'engine': 'z3', 'paths_analysed': len(r.lock_logs), 'nested_acquisitions': nedges, 'cycle_queries': nq,
                              'predicted_cycles': [{'a': {'thread': k[0][0], 'held': k[0][1], 'acquires': k[0][2]}, 'b': {'thread': k[1][0], 'held': k[1][1], 'acquires': k[1][2]}} for k in cycles]})
    for key, (ea, eb) in cycles.items():
        classes = {key[0][2], key[1][2]}
        is_known = classes == {'E', 'P'} and {key[0][0], key[1][0]} & {'T1'} and KF_E_P_INVERSION in c.known and c.known[KF_E_P_INVERSION]['property'] == 'C17'
        desc = 'thread %s holds %s and acquires %s while thread %s holds %s and acquires %s' % (ea[0], sorted(ea[1]), ea[2], eb[0], sorted(eb[1]), eb[2])
        if is_known:
            if KF_E_P_INVERSION not in c.kf_seen:
                c.kf_seen[KF_E_P_INVERSION] = desc
                c.kf_lines.append('KNOWN-FINDING: property=C17 %s (%s) witness: %s' % (c.known[KF_E_P_INVERSION]['name'], c.known[KF_E_P_INVERSION]['desc'], desc))
        else:
            # a predicted inversion that is not the recorded one: written out as a replay description and reported
            import json, os, hashlib
            os.makedirs('/verif/replays', exist_ok=True)
            path = '/verif/replays/C17-lockorder-%s.json' % hashlib.sha256(desc.encode()).hexdigest()[:8]
            json.dump({'property': 'C17', 'harness': 'h_c17_scenario', 'predicted_cycle': desc}, open(path, 'w'), indent=1)
            c.violations.append(('h_c17_scenario', path, 'lock-order', desc))
    c.extra_cov = {'explanation': 'Lock-order prediction, not a proof of deadlock freedom: %d role paths of the real code were executed symbolically with a holder-tracking mutex model, %d nested acquisitions recorded, and z3 was asked (%d queries) for a pair of acquisitions by different threads closing a cycle without a common gate lock; it found %d. Real thread interleavings are not explored (Kani and this engine are sequential); the one inversion found earlier (E/P) was confirmed by a native two-thread stress program and repaired.' % (len(r.lock_logs), nedges, nq, len(cycles))}
    c.samples.append({'lock_edges_of_first_path': [(t, list(h), a) for t, h, a in (r.lock_logs[0] if r.lock_logs else []) if h][:12]})
