"""C08 — executable content order and SCXML error semantics (engine M: the real rfsm-expression datamodel executes blocks of real content structs)."""
LEVEL = 'model_checking'


def run(c):
    c.assumptions += [
        'block [marker, X, marker] with X one element of every kind (if/elseif/else chain as the reader nests it, foreach with index, assign, raise, log, script, expression) or one error position (undeclared location, failing value, failing condition, failing log expression, unparsable script, non-iterable foreach, failing foreach body)',
        'conditions c1, c2 are solver-chosen booleans, the foreach array has 0..3 items; expectations follow the Recommendation (error.execution, condition counts as false, only the rest of the enclosing block is aborted)',
    ]
    c.outside += ['ECMAScript datamodel (boa engine) — not encodable', '<send> argument errors are decided under C12', 'nesting deeper than 3, blocks longer than 3 elements']
    c.run_m('h_c08_block', expect_checks=(801, 802, 803, 804), expect_cover=(801,), bounds={'kinds': 17, 'conditions': 'all', 'foreach length': '0..3'}, diff_samples=4)
