"""C19 — event descriptor matching (engine M on symbolic chars; Kani as bit-precise cross-check in the thorough tier)."""
LEVEL = 'model_checking'


def run(c):
    c.assumptions += [
        'descriptors are in the normal form the reader produces (no trailing "." / ".*"); `wildcard` set iff a descriptor is "*"',
        'engine M: str::starts_with / len / as_bytes modelled on lists of symbolic chars; UTF-8 widths decided by forking over the four width classes',
        'oracle (harness, on char vectors): descriptor matches iff name == descriptor or name starts with descriptor followed by "."',
    ]
    c.outside += ['descriptors longer than 3 chars, names longer than 6 chars, more than 2 descriptors',
                  'the reader-side normalisation of "e." / "e.*" (decided under C04 when claimed)']
    c.run_m('h_c19_k', expect_checks=(1900,), expect_cover=(1900,), bounds={'descriptor': '1 arbitrary Unicode char', 'name': '0..3 arbitrary chars'})
    c.run_m('h_c19_wild', expect_checks=(1920,), expect_cover=(1920,), bounds={'name': '0..3 arbitrary chars'})
    if c.tier == 'quick':
        c.run_m('h_c19_mq', expect_checks=(1910,), expect_cover=(1910,), bounds={'descriptors': '1..2 of 1..2 / 1 chars', 'name': '0..4 chars', 'chars': 'every Unicode scalar value'}, diff_samples=3)
    else:
        c.run_m('h_c19_m', expect_checks=(1910,), expect_cover=(1910,), bounds={'descriptors': '1..2 of 1..3 / 1..2 chars', 'name': '0..6 chars', 'chars': 'every Unicode scalar value'}, diff_samples=5, time_cap=3000)
        c.run_kani('h_match::proofs::k_c19_wild', 'h_c19_wild', time_cap=600, bounds={'name': '0..3 chars'})
        c.run_kani('h_match::proofs::k_c19_2', 'h_c19_k2', time_cap=1500, bounds={'descriptor': '1 char', 'name': '2 chars'})
