"""Regenerates the encoding input: MIR dumps of /repo (current working tree) and of the harness crate, plus native replay binaries.
Everything is keyed by a hash of the sources, so identical trees share the dumps and any edit to /repo produces new ones."""
import os, sys, hashlib, subprocess, shutil, time, json, fcntl

VERIF = os.path.dirname(os.path.dirname(os.path.abspath(__file__)))
REPO = os.environ.get('VERIF_REPO', '/repo')
CACHE = os.path.join(VERIF, '.cache')
HARNESS = os.path.join(VERIF, 'harness')
FEATURES = 'serializer,RfsmExpressionModel,xml,Verif_Hooks'
ENV = dict(os.environ, CARGO_NET_OFFLINE='true', RUSTFLAGS=os.environ.get('RUSTFLAGS', ''))


def _hash_tree(h, root, exts=('.rs', '.toml', '.lock')):
    for dp, dn, fns in sorted(os.walk(root)):
        dn[:] = sorted(d for d in dn if d not in ('target', '.git', '.cache'))
        for fn in sorted(fns):
            if fn.endswith(exts):
                p = os.path.join(dp, fn)
                h.update(os.path.relpath(p, root).encode())
                h.update(open(p, 'rb').read())


def source_hash():
    h = hashlib.sha256()
    _hash_tree(h, os.path.join(REPO, 'src'))
    for f in ('Cargo.toml', 'Cargo.lock'):
        p = os.path.join(REPO, f)
        if os.path.exists(p):
            h.update(open(p, 'rb').read())
    _hash_tree(h, os.path.join(HARNESS, 'src'))
    h.update(open(os.path.join(HARNESS, 'Cargo.toml'), 'rb').read())
    return h.hexdigest()[:16]


class BuildError(Exception):
    pass


def _run(cmd, cwd, env, out=None, timeout=1800):
    p = subprocess.run(cmd, cwd=cwd, env=env, stdout=(open(out, 'w') if out else subprocess.PIPE), stderr=subprocess.PIPE, timeout=timeout)
    if p.returncode != 0:
        raise BuildError('command failed: %s\n%s' % (' '.join(cmd), p.stderr.decode('utf-8', 'replace')[-3000:]))
    return p


def ensure_lock():
    src = os.path.join(REPO, 'Cargo.lock')
    dst = os.path.join(HARNESS, 'Cargo.lock')
    if os.path.exists(src):
        # keep the harness lock in step with /repo's (adds the vharness package entry itself on first build)
        if not os.path.exists(dst):
            shutil.copy(src, dst)


def mir_dumps(log=print):
    """returns (hash, repo_mir_path, harness_mir_path), generating them if this source state has not been dumped yet"""
    os.makedirs(CACHE, exist_ok=True)
    h = source_hash()
    d = os.path.join(CACHE, 'mir', h)
    rp, hp = os.path.join(d, 'repo.mir'), os.path.join(d, 'harness.mir')
    lock = open(os.path.join(CACHE, 'build.lock'), 'w')
    fcntl.flock(lock, fcntl.LOCK_EX)
    try:
        if os.path.exists(rp) and os.path.exists(hp) and os.path.exists(os.path.join(d, 'ok')):
            return h, rp, hp
        os.makedirs(d, exist_ok=True)
        ensure_lock()
        t0 = time.time()
        env = dict(ENV, CARGO_TARGET_DIR=os.path.join(CACHE, 'target-mir'))
        cfg = 'verif_src_%s' % h
        log('[build] dumping MIR of /repo (nightly, features %s)' % FEATURES)
        _run(['cargo', '+nightly', 'rustc', '--offline', '--lib', '--no-default-features', '--features', FEATURES, '--',
              '-Zunpretty=mir', '-Zmir-opt-level=0', '-C', 'debug-assertions=off', '-C', 'overflow-checks=on', '--cfg', cfg, '-Awarnings'],
             REPO, env, out=rp + '.tmp')
        if os.path.getsize(rp + '.tmp') < 100000:
            raise BuildError('MIR dump of /repo is unexpectedly small')
        os.replace(rp + '.tmp', rp)
        log('[build] dumping MIR of harness crate')
        _run(['cargo', '+nightly', 'rustc', '--offline', '--lib', '--',
              '-Zunpretty=mir', '-Zmir-opt-level=0', '-C', 'debug-assertions=off', '-C', 'overflow-checks=on', '--cfg', cfg, '-Awarnings'],
             HARNESS, env, out=hp + '.tmp')
        if os.path.getsize(hp + '.tmp') < 1000:
            raise BuildError('MIR dump of harness crate is unexpectedly small')
        os.replace(hp + '.tmp', hp)
        open(os.path.join(d, 'ok'), 'w').write(str(time.time()))
        log('[build] MIR ready in %.1fs (hash %s)' % (time.time() - t0, h))
        # keep only the 4 most recent dumps
        ds = sorted((os.path.getmtime(os.path.join(CACHE, 'mir', x)), x) for x in os.listdir(os.path.join(CACHE, 'mir')))
        for _, x in ds[:-4]:
            shutil.rmtree(os.path.join(CACHE, 'mir', x), ignore_errors=True)
        return h, rp, hp
    finally:
        fcntl.flock(lock, fcntl.LOCK_UN)


def native_replay_bin(profile='dev', log=print):
    """builds (if needed) and returns the path of the native replay binary for the current sources"""
    os.makedirs(CACHE, exist_ok=True)
    h = source_hash()
    lock = open(os.path.join(CACHE, 'build-native.lock'), 'w')
    fcntl.flock(lock, fcntl.LOCK_EX)
    try:
        ensure_lock()
        tdir = os.path.join(CACHE, 'target-native')
        stamp = os.path.join(tdir, 'stamp-%s' % profile)
        binp = os.path.join(tdir, 'release' if profile == 'release' else 'debug', 'replay')
        if os.path.exists(stamp) and open(stamp).read() == h and os.path.exists(binp):
            return binp
        env = dict(ENV, CARGO_TARGET_DIR=tdir)
        cmd = ['cargo', 'build', '--offline', '--bin', 'replay']
        if profile == 'release':
            cmd.append('--release')
        log('[build] native replay binary (%s)' % profile)
        _run(cmd, HARNESS, env)
        open(stamp, 'w').write(h)
        return binp
    finally:
        fcntl.flock(lock, fcntl.LOCK_UN)


def load_program(log=print):
    from .driver import load_program as lp
    h, rp, hp = mir_dumps(log)
    t0 = time.time()
    P = lp([(open(rp).read(), 'rufsm', REPO), (open(hp).read(), 'vharness', HARNESS)])
    P.mir_hash = h
    log('[mirsym] program loaded: %d functions (%.1fs)' % (len(P.funcs), time.time() - t0))
    return P
