"""Environment models: str / String / char / formatting / numeric helpers."""
import re, math, struct
import z3
from .values import *
from .execu import bv, simp_bool, seq_len, to_signed, zbool
from .mirparse import W, SIGNED
from .natives import nat, REG, D, generic_of, and_all, neg, drain_iter, clone_value, eq_values


def utf8_len(c):
    return 1 if c < 0x80 else 2 if c < 0x800 else 3 if c < 0x10000 else 4


def str_bytes(ex, st):
    if st.is_concrete():
        return list(st.s.encode('utf-8'))
    out = []
    for c in st.chars:
        if isinstance(c, int):
            out.extend(chr(c).encode('utf-8'))
        elif isinstance(c, SymPiece):
            raise Unsupported('bytes of text with a formatted symbolic integer')
        else:
            w = ex.prog.char_width(ex, c)
            if w == 1:
                out.append(z3.simplify(z3.Extract(7, 0, c)))
            elif w == 2:
                out += [z3.simplify(z3.Extract(7, 0, 0xC0 | z3.LShR(c, 6))), z3.simplify(z3.Extract(7, 0, 0x80 | (c & 0x3F)))]
            elif w == 3:
                out += [z3.simplify(z3.Extract(7, 0, 0xE0 | z3.LShR(c, 12))), z3.simplify(z3.Extract(7, 0, 0x80 | (z3.LShR(c, 6) & 0x3F))), z3.simplify(z3.Extract(7, 0, 0x80 | (c & 0x3F)))]
            else:
                out += [z3.simplify(z3.Extract(7, 0, 0xF0 | z3.LShR(c, 18))), z3.simplify(z3.Extract(7, 0, 0x80 | (z3.LShR(c, 12) & 0x3F))),
                        z3.simplify(z3.Extract(7, 0, 0x80 | (z3.LShR(c, 6) & 0x3F))), z3.simplify(z3.Extract(7, 0, 0x80 | (c & 0x3F)))]
    return out


def str_eq(ex, a, b):
    if a.is_concrete() and b.is_concrete():
        return a.chars == b.chars
    if any(isinstance(c, SymPiece) for c in a.chars + b.chars):
        # decimal rendering is injective: two texts that agree outside aligned formatted integers are equal iff those integers are
        if len(a.chars) == len(b.chars) and all(isinstance(x, SymPiece) == isinstance(y, SymPiece) for x, y in zip(a.chars, b.chars)):
            conds = []
            for x, y in zip(a.chars, b.chars):
                if isinstance(x, SymPiece):
                    if x.signed != y.signed or x.expr.size() != y.expr.size():
                        raise Unsupported('comparison of differently typed formatted symbolic integers')
                    conds.append(simp_bool(x.expr == y.expr))
                else:
                    conds.append((x == y) if isinstance(x, int) and isinstance(y, int) else simp_bool(bv(x, 32) == bv(y, 32)))
            return and_all(ex, conds)
        raise Unsupported('comparison of text containing a formatted symbolic integer')
    if len(a.chars) != len(b.chars):
        return False
    return and_all(ex, [(x == y) if isinstance(x, int) and isinstance(y, int) else simp_bool(bv(x, 32) == bv(y, 32)) for x, y in zip(a.chars, b.chars)])


def byte_to_char_index(ex, st, off, panic_msg='byte index is not a char boundary'):
    """map a byte offset into a char index (concrete offset; symbolic chars have their width decided by forking)"""
    n = 0
    for i, c in enumerate(st.chars):
        if n == off:
            return i
        if n > off:
            raise Panic(panic_msg)
        n += utf8_len(c) if isinstance(c, int) else ex.prog.char_width(ex, c)
    if n == off:
        return len(st.chars)
    return None


def str_index_range(ex, st, rg, panic=True):
    total = ex.prog.str_byte_len(ex, st)
    name = rg.name
    if name == 'RangeFull':
        lo, hi = 0, total
    elif name == 'RangeTo':
        lo, hi = 0, rg.fields[0]
    elif name == 'RangeFrom':
        lo, hi = rg.fields[0], total
    elif name == 'Range':
        lo, hi = rg.fields[0], rg.fields[1]
    elif name == 'RangeInclusive':
        lo, hi = rg.fields[0], rg.fields[1] + 1
    else:
        raise Unsupported('str range ' + name)
    if is_sym(lo) or is_sym(hi) or is_sym(total):
        raise Unsupported('symbolic str slicing')
    if lo > hi or hi > total:
        if panic:
            raise Panic('byte index out of range of str')
        return None
    try:
        a = byte_to_char_index(ex, st, lo)
        b = byte_to_char_index(ex, st, hi)
    except Panic:
        if panic:
            raise
        return None
    return Ref(Cell(StrV(st.chars[a:b])))


@nat('<str as Index>::index', '<String as Index>::index', '<str as IndexMut>::index_mut')
def str_index(ex, r, rg):
    return str_index_range(ex, D(ex, r), rg, True)


@nat('str::get')
def str_get(ex, r, rg):
    x = str_index_range(ex, D(ex, r), rg, False)
    return NONE() if x is None else some(x)


@nat('<str as ToString>::to_string', '<String as ToString>::to_string', '<Cow as ToString>::to_string')
def str_to_string(ex, r):
    v = D(ex, r)
    if isinstance(v, Adt) and v.name == 'Cow':
        v = D(ex, v.fields[0])
    return StrV(v.chars)


@nat('String::len', 'str::len')
def str_len(ex, r): return ex.prog.str_byte_len(ex, D(ex, r))


@nat('String::is_empty', 'str::is_empty')
def str_is_empty(ex, r): return len(D(ex, r).chars) == 0


@nat('String::clear')
def string_clear(ex, r):
    D(ex, r).chars = []
    return ()


@nat('String::push')
def string_push(ex, r, c):
    D(ex, r).chars.append(c)
    return ()


@nat('String::push_str', '<String as AddAssign>::add_assign')
def string_push_str(ex, r, o):
    D(ex, r).chars.extend(D(ex, o).chars)
    return ()


@nat('<String as Add>::add')
def string_add(ex, a, o):
    a.chars.extend(D(ex, o).chars)
    return a


@nat('String::insert_str')
def string_insert_str(ex, r, idx, s2):
    st = D(ex, r)
    i = byte_to_char_index(ex, st, idx)
    if i is None:
        raise Panic('insert_str index out of range')
    st.chars[i:i] = D(ex, s2).chars
    return ()


@nat('String::insert')
def string_insert(ex, r, idx, c):
    st = D(ex, r)
    i = byte_to_char_index(ex, st, idx)
    if i is None:
        raise Panic('insert index out of range')
    st.chars.insert(i, c)
    return ()


@nat('String::remove')
def string_remove(ex, r, idx):
    st = D(ex, r)
    i = byte_to_char_index(ex, st, idx)
    if i is None or i >= len(st.chars):
        raise Panic('cannot remove a char from the end of a string')
    return st.chars.pop(i)


@nat('String::pop')
def string_pop(ex, r):
    st = D(ex, r)
    return some(st.chars.pop()) if st.chars else NONE()


@nat('String::truncate')
def string_truncate(ex, r, n):
    st = D(ex, r)
    i = byte_to_char_index(ex, st, n)
    if i is not None:
        del st.chars[i:]
    return ()


@nat('str::as_bytes', 'String::into_bytes', 'str::bytes_vec')
def str_as_bytes(ex, r):
    st = D(ex, r)
    v = VecV(str_bytes(ex, st))
    return Ref(Cell(v)) if isinstance(r, Ref) else v


@nat('str::starts_with', want_callee=True)
def str_starts_with(ex, callee, a, b):
    sa = D(ex, a)
    pb = D(ex, b)
    if isinstance(pb, StrV):
        pat = pb.chars
    elif isinstance(pb, int) or is_sym(pb):
        pat = [pb]
    else:
        raise Unsupported('starts_with pattern %r' % (pb,))
    if len(pat) > len(sa.chars):
        return False
    return str_eq(ex, StrV(sa.chars[:len(pat)]), StrV(pat))


@nat('str::ends_with')
def str_ends_with(ex, a, b):
    sa = D(ex, a)
    pb = D(ex, b)
    pat = pb.chars if isinstance(pb, StrV) else [pb]
    if len(pat) > len(sa.chars):
        return False
    return str_eq(ex, StrV(sa.chars[len(sa.chars) - len(pat):]), StrV(pat))


def _pat_text(ex, b):
    pb = D(ex, b)
    if isinstance(pb, StrV):
        return pb.s
    if isinstance(pb, int):
        return chr(pb)
    raise Unsupported('pattern %r' % (pb,))


@nat('str::strip_suffix')
def str_strip_suffix(ex, a, b):
    sa = D(ex, a)
    if not sa.is_concrete():
        pb = D(ex, b)
        pat = pb.chars if isinstance(pb, StrV) else [pb]
        if len(pat) > len(sa.chars):
            return NONE()
        n = len(sa.chars) - len(pat)
        hit = ex.branch(zbool(str_eq(ex, StrV(sa.chars[n:]), StrV(pat))))
        return some(Ref(Cell(StrV(sa.chars[:n])))) if hit else NONE()
    s_, p = sa.s, _pat_text(ex, b)
    return some(Ref(Cell(StrV(s_[:len(s_) - len(p)])))) if s_.endswith(p) else NONE()


@nat('str::strip_prefix')
def str_strip_prefix(ex, a, b):
    sa = D(ex, a)
    pb0 = D(ex, b)
    if not sa.is_concrete() or (isinstance(pb0, StrV) and not pb0.is_concrete()):
        pat = pb0.chars if isinstance(pb0, StrV) else [pb0]
        if len(pat) > len(sa.chars):
            return NONE()
        hit = ex.branch(zbool(str_eq(ex, StrV(sa.chars[:len(pat)]), StrV(pat))))
        return some(Ref(Cell(StrV(sa.chars[len(pat):])))) if hit else NONE()
    s_, p = sa.s, _pat_text(ex, b)
    return some(Ref(Cell(StrV(s_[len(p):])))) if s_.startswith(p) else NONE()


@nat('str::contains')
def str_contains(ex, a, b): return _pat_text(ex, b) in D(ex, a).s


@nat('str::find')
def str_find(ex, a, b):
    s_ = D(ex, a).s
    pb = D(ex, b)
    if isinstance(pb, (Closure, FnItem)):
        for i, c in enumerate(s_):
            if ex.branch(ex.call_value(pb, [ord(c)])):
                return some(len(s_[:i].encode('utf-8')))
        return NONE()
    i = s_.find(_pat_text(ex, b))
    return NONE() if i < 0 else some(len(s_[:i].encode('utf-8')))


@nat('str::rfind')
def str_rfind(ex, a, b):
    s_ = D(ex, a).s
    i = s_.rfind(_pat_text(ex, b))
    return NONE() if i < 0 else some(len(s_[:i].encode('utf-8')))


_RUST_WS = '\t\n\x0b\x0c\r \x85\xa0                　'


@nat('str::trim')
def str_trim(ex, a): return Ref(Cell(StrV(D(ex, a).s.strip(_RUST_WS))))


@nat('str::trim_start')
def str_trim_start(ex, a): return Ref(Cell(StrV(D(ex, a).s.lstrip(_RUST_WS))))


@nat('str::trim_end')
def str_trim_end(ex, a): return Ref(Cell(StrV(D(ex, a).s.rstrip(_RUST_WS))))


@nat('str::trim_start_matches')
def str_trim_start_matches(ex, a, b):
    s_, p = D(ex, a).s, _pat_text(ex, b)
    while p and s_.startswith(p):
        s_ = s_[len(p):]
    return Ref(Cell(StrV(s_)))


@nat('str::trim_end_matches')
def str_trim_end_matches(ex, a, b):
    s_, p = D(ex, a).s, _pat_text(ex, b)
    while p and s_.endswith(p):
        s_ = s_[:len(s_) - len(p)]
    return Ref(Cell(StrV(s_)))


@nat('str::to_lowercase')
def str_to_lowercase(ex, a): return StrV(D(ex, a).s.lower())


@nat('str::to_uppercase')
def str_to_uppercase(ex, a): return StrV(D(ex, a).s.upper())


@nat('str::to_ascii_lowercase')
def str_to_ascii_lowercase(ex, a): return StrV(''.join(c.lower() if c < '\x80' else c for c in D(ex, a).s))


@nat('str::eq_ignore_ascii_case')
def str_eq_ignore_ascii_case(ex, a, b):
    f = lambda t: ''.join(c.lower() if c < '\x80' else c for c in t)
    return f(D(ex, a).s) == f(D(ex, b).s)


@nat('str::replace')
def str_replace(ex, a, p, t): return StrV(D(ex, a).s.replace(_pat_text(ex, p), D(ex, t).s))


def _list_iter(items): return Adt('ListIter', 0, [items, 0])


def _split_ws_sym(ex, sv, ws):
    """whitespace split of a string with symbolic characters: `c is whitespace` is decided by forking per symbolic character"""
    parts, cur = [], []
    for c in sv.chars:
        if isinstance(c, SymPiece):
            raise Unsupported('whitespace split of text with a formatted symbolic integer')
        if isinstance(c, int):
            isws = chr(c) in ws
        else:
            isws = ex.branch(simp_bool(z3.Or(*[c == ord(w) for w in ws])))
        if isws:
            if cur:
                parts.append(cur)
            cur = []
        else:
            cur.append(c)
    if cur:
        parts.append(cur)
    return _list_iter([Ref(Cell(StrV(p))) for p in parts])


@nat('str::split_whitespace')
def str_split_whitespace(ex, a):
    sv = D(ex, a)
    if not sv.is_concrete():
        return _split_ws_sym(ex, sv, _RUST_WS)
    s_ = sv.s
    parts = [p for p in re.split('[' + re.escape(_RUST_WS) + ']+', s_) if p]
    return _list_iter([Ref(Cell(StrV(p))) for p in parts])


@nat('str::split_ascii_whitespace')
def str_split_ascii_whitespace(ex, a):
    sv = D(ex, a)
    if not sv.is_concrete():
        return _split_ws_sym(ex, sv, '\t\n\x0c\r ')
    s_ = sv.s
    parts = [p for p in re.split('[\t\n\x0c\r ]+', s_) if p]
    return _list_iter([Ref(Cell(StrV(p))) for p in parts])


def _split_chars(ex, st, p):
    """split a (possibly symbolic) string at a one-character pattern: every `c == sep` test is decided by forking"""
    pb = D(ex, p)
    if isinstance(pb, StrV):
        if len(pb.chars) != 1:
            return None
        sep = pb.chars[0]
    else:
        sep = pb
    parts, cur = [], []
    for c in st.chars:
        if isinstance(c, SymPiece):
            raise Unsupported('split of text with a formatted symbolic integer')
        iseq = (c == sep) if isinstance(c, int) and isinstance(sep, int) else simp_bool(bv(c, 32) == bv(sep, 32))
        if ex.branch(iseq):
            parts.append(cur)
            cur = []
        else:
            cur.append(c)
    parts.append(cur)
    return parts


@nat('str::split')
def str_split(ex, a, p):
    st = D(ex, a)
    if not st.is_concrete() or (not isinstance(D(ex, p), StrV) and is_sym(D(ex, p))):
        parts = _split_chars(ex, st, p)
        if parts is None:
            raise Unsupported('split of symbolic text at a multi-char pattern')
        return _list_iter([Ref(Cell(StrV(x))) for x in parts])
    return _list_iter([Ref(Cell(StrV(x))) for x in st.s.split(_pat_text(ex, p))])


@nat('str::rsplit')
def str_rsplit(ex, a, p):
    return _list_iter([Ref(Cell(StrV(x))) for x in reversed(D(ex, a).s.split(_pat_text(ex, p)))])


@nat('str::lines')
def str_lines(ex, a):
    return _list_iter([Ref(Cell(StrV(x))) for x in D(ex, a).s.splitlines()])


@nat('str::chars')
def str_chars(ex, r): return Adt('Chars', 0, [D(ex, r), 0])


@nat('str::char_indices')
def str_char_indices(ex, r):
    st = D(ex, r)
    out, n = [], 0
    for c in st.chars:
        out.append([n, c])
        n += utf8_len(c)
    return _list_iter(out)


@nat('str::is_char_boundary')
def str_is_char_boundary(ex, r, idx):
    st = D(ex, r)
    try:
        return byte_to_char_index(ex, st, idx) is not None
    except Panic:
        return False


@nat('from_utf8', 'str::from_utf8')
def from_utf8(ex, r):
    sl = D(ex, r)
    items = sl.vec.items[sl.lo:sl.hi] if isinstance(sl, SliceV) else sl.items
    if any(is_sym(b) for b in items):
        return from_utf8_sym(ex, items)
    try:
        return OK(Ref(Cell(StrV(bytes(items).decode('utf-8')))))
    except UnicodeDecodeError:
        return ERR(Opaque('Utf8Error'))


def from_utf8_sym(ex, items):
    """UTF-8 validation/decoding of a byte list with symbolic bytes: forks on the class of every lead byte"""
    out = []
    i = 0
    n = len(items)
    B = lambda x: bv(x, 8)
    while i < n:
        b0 = B(items[i])
        k = ex.choose([simp_bool(z3.ULT(b0, 0x80)), simp_bool(z3.And(z3.UGE(b0, 0xC2), z3.ULE(b0, 0xDF))),
                       simp_bool(z3.And(z3.UGE(b0, 0xE0), z3.ULE(b0, 0xEF))), simp_bool(z3.And(z3.UGE(b0, 0xF0), z3.ULE(b0, 0xF4))),
                       simp_bool(z3.Or(z3.And(z3.UGE(b0, 0x80), z3.ULT(b0, 0xC2)), z3.UGT(b0, 0xF4)))])
        if k == 4 or (k > 0 and i + k >= n):
            return ERR(Opaque('Utf8Error'))
        def cont(x):
            return z3.And(z3.UGE(B(x), 0x80), z3.ULE(B(x), 0xBF))
        Z = lambda x: z3.ZeroExt(24, B(x))
        if k == 0:
            out.append(z3.simplify(Z(items[i])) if is_sym(items[i]) else items[i])
            i += 1
        elif k == 1:
            if not ex.branch(cont(items[i + 1])):
                return ERR(Opaque('Utf8Error'))
            out.append(z3.simplify(((Z(items[i]) & 0x1F) << 6) | (Z(items[i + 1]) & 0x3F)))
            i += 2
        elif k == 2:
            b1 = B(items[i + 1])
            ok = z3.And(cont(items[i + 1]), cont(items[i + 2]), z3.Implies(b0 == 0xE0, z3.UGE(b1, 0xA0)), z3.Implies(b0 == 0xED, z3.ULE(b1, 0x9F)))
            if not ex.branch(ok):
                return ERR(Opaque('Utf8Error'))
            out.append(z3.simplify(((Z(items[i]) & 0x0F) << 12) | ((Z(items[i + 1]) & 0x3F) << 6) | (Z(items[i + 2]) & 0x3F)))
            i += 3
        else:
            b1 = B(items[i + 1])
            ok = z3.And(cont(items[i + 1]), cont(items[i + 2]), cont(items[i + 3]), z3.Implies(b0 == 0xF0, z3.UGE(b1, 0x90)), z3.Implies(b0 == 0xF4, z3.ULE(b1, 0x8F)))
            if not ex.branch(ok):
                return ERR(Opaque('Utf8Error'))
            out.append(z3.simplify(((Z(items[i]) & 0x07) << 18) | ((Z(items[i + 1]) & 0x3F) << 12) | ((Z(items[i + 2]) & 0x3F) << 6) | (Z(items[i + 3]) & 0x3F)))
            i += 4
    out = [(o.as_long() if is_sym(o) and z3.is_bv_value(o) else o) for o in out]
    return OK(Ref(Cell(StrV(out))))


@nat('String::from_utf8')
def string_from_utf8(ex, v):
    r = from_utf8(ex, Ref(Cell(v)))
    if r.variant == 0:
        return OK(D(ex, r.fields[0]))
    return r


@nat('String::from_utf8_lossy')
def string_from_utf8_lossy(ex, r):
    sl = D(ex, r)
    items = sl.vec.items[sl.lo:sl.hi] if isinstance(sl, SliceV) else sl.items
    return Adt('Cow', 1, [StrV(bytes(items).decode('utf-8', 'replace'))])


# ---- char
@nat('char::is_ascii_digit')
def char_is_ascii_digit(ex, r):
    c = D(ex, r)
    if is_sym(c):
        return simp_bool(z3.And(z3.UGE(c, 48), z3.ULE(c, 57)))
    return 48 <= c <= 57


@nat('char::is_ascii_alphabetic')
def char_is_ascii_alphabetic(ex, r):
    c = D(ex, r)
    if is_sym(c):
        return simp_bool(z3.Or(z3.And(z3.UGE(c, 65), z3.ULE(c, 90)), z3.And(z3.UGE(c, 97), z3.ULE(c, 122))))
    return 65 <= c <= 90 or 97 <= c <= 122


@nat('char::is_ascii_alphanumeric')
def char_is_ascii_alphanumeric(ex, r):
    c = D(ex, r)
    if is_sym(c):
        return simp_bool(z3.Or(z3.And(z3.UGE(c, 48), z3.ULE(c, 57)), z3.And(z3.UGE(c, 65), z3.ULE(c, 90)), z3.And(z3.UGE(c, 97), z3.ULE(c, 122))))
    return 48 <= c <= 57 or 65 <= c <= 90 or 97 <= c <= 122


def _conc_char(ex, c, what):
    """fork a symbolic char into the classes the unicode predicate distinguishes (only ASCII modelled exactly)"""
    if is_sym(c):
        raise Unsupported('unicode predicate %s on symbolic char' % what)
    return chr(c)


@nat('char::is_whitespace')
def char_is_whitespace(ex, c):
    c = D(ex, c)
    if is_sym(c):
        conds = [c == ord(x) for x in _RUST_WS]
        return simp_bool(z3.Or(conds))
    return chr(c) in _RUST_WS


@nat('char::is_alphabetic')
def char_is_alphabetic(ex, c): return _conc_char(ex, D(ex, c), 'is_alphabetic').isalpha()


@nat('char::is_alphanumeric')
def char_is_alphanumeric(ex, c): return _conc_char(ex, D(ex, c), 'is_alphanumeric').isalnum()


@nat('char::is_numeric')
def char_is_numeric(ex, c): return _conc_char(ex, D(ex, c), 'is_numeric').isnumeric()


@nat('char::is_ascii_whitespace')
def char_is_ascii_whitespace(ex, r):
    c = D(ex, r)
    if is_sym(c):
        return simp_bool(z3.Or([c == x for x in (9, 10, 12, 13, 32)]))
    return c in (9, 10, 12, 13, 32)


@nat('char::from_u32')
def char_from_u32(ex, v):
    if is_sym(v):
        ok = z3.And(z3.ULT(v, 0x110000), z3.Or(z3.ULT(v, 0xD800), z3.UGT(v, 0xDFFF)))
        return some(v) if ex.branch(ok) else NONE()
    return some(v) if v < 0x110000 and not (0xD800 <= v <= 0xDFFF) else NONE()


@nat('char::to_digit')
def char_to_digit(ex, c, radix):
    if is_sym(c) or radix != 10:
        raise Unsupported('to_digit symbolic / radix')
    return some(c - 48) if 48 <= c <= 57 else NONE()


@nat('char::len_utf8')
def char_len_utf8(ex, c):
    if is_sym(c):
        return z3.If(z3.ULT(c, 0x80), z3.BitVecVal(1, 64), z3.If(z3.ULT(c, 0x800), z3.BitVecVal(2, 64), z3.If(z3.ULT(c, 0x10000), z3.BitVecVal(3, 64), z3.BitVecVal(4, 64))))
    return utf8_len(c)


@nat('char::to_ascii_lowercase')
def char_to_ascii_lowercase(ex, r):
    c = D(ex, r)
    if is_sym(c):
        return z3.If(z3.And(z3.UGE(c, 65), z3.ULE(c, 90)), c + 32, c)
    return c + 32 if 65 <= c <= 90 else c


@nat('char::is_ascii')
def char_is_ascii(ex, r):
    c = D(ex, r)
    return simp_bool(z3.ULT(c, 128)) if is_sym(c) else c < 128


# ---- numbers
def _sat(w, signed):
    lo, hi = (-(1 << (w - 1)), (1 << (w - 1)) - 1) if signed else (0, (1 << w) - 1)
    mask = (1 << w) - 1
    return lo, hi, mask


def make_sat(op, ty):
    w, sg = W[ty], ty in SIGNED
    lo, hi, mask = _sat(w, sg)

    def f(ex, a, b):
        if is_sym(a) or is_sym(b):
            A, B = bv(a, w), bv(b, w)
            if op == 'add':
                if sg:
                    return z3.If(z3.Not(z3.BVAddNoOverflow(A, B, True)), z3.BitVecVal(hi, w), z3.If(z3.Not(z3.BVAddNoUnderflow(A, B)), z3.BitVecVal(lo & mask, w), A + B))
                return z3.If(z3.Not(z3.BVAddNoOverflow(A, B, False)), z3.BitVecVal(hi, w), A + B)
            if op == 'sub':
                if sg:
                    return z3.If(z3.Not(z3.BVSubNoOverflow(A, B)), z3.BitVecVal(hi, w), z3.If(z3.Not(z3.BVSubNoUnderflow(A, B, True)), z3.BitVecVal(lo & mask, w), A - B))
                return z3.If(z3.ULT(A, B), z3.BitVecVal(0, w), A - B)
            if op == 'mul':
                if sg:
                    return z3.If(z3.Not(z3.BVMulNoOverflow(A, B, True)), z3.BitVecVal(hi, w), z3.If(z3.Not(z3.BVMulNoUnderflow(A, B)), z3.BitVecVal(lo & mask, w), A * B))
                return z3.If(z3.Not(z3.BVMulNoOverflow(A, B, False)), z3.BitVecVal(hi, w), A * B)
        x = to_signed(a, w) if sg else a
        y = to_signed(b, w) if sg else b
        r = x + y if op == 'add' else x - y if op == 'sub' else x * y
        return max(lo, min(hi, r)) & mask
    return f


for _t in ('u8', 'u16', 'u32', 'u64', 'usize', 'i8', 'i16', 'i32', 'i64', 'isize'):
    for _o in ('add', 'sub', 'mul'):
        REG['%s::saturating_%s' % (_t, _o)] = make_sat(_o, _t)


def make_wrapping(op, ty):
    w = W[ty]
    mask = (1 << w) - 1

    def f(ex, a, b):
        if is_sym(a) or is_sym(b):
            A, B = bv(a, w), bv(b, w)
            return A + B if op == 'add' else A - B if op == 'sub' else A * B
        return (a + b if op == 'add' else a - b if op == 'sub' else a * b) & mask
    return f


def make_checked(op, ty):
    w, sg = W[ty], ty in SIGNED
    lo, hi, mask = _sat(w, sg)

    def f(ex, a, b):
        if is_sym(a) or is_sym(b):
            A, B = bv(a, w), bv(b, w)
            if op in ('div', 'rem'):
                if ex.branch(B == 0):
                    return NONE()
                if sg and ex.branch(z3.And(A == (1 << (w - 1)), B == mask)):
                    return NONE()
                if op == 'rem':
                    return some(z3.simplify(z3.SRem(A, B) if sg else z3.URem(A, B)))
                return some(z3.simplify((A / B) if sg else z3.UDiv(A, B)))
            if op == 'add':
                ovf = z3.Or(z3.Not(z3.BVAddNoOverflow(A, B, sg)), z3.Not(z3.BVAddNoUnderflow(A, B))) if sg else z3.Not(z3.BVAddNoOverflow(A, B, False))
                return NONE() if ex.branch(ovf) else some(z3.simplify(A + B))
            if op == 'sub':
                ovf = z3.Or(z3.Not(z3.BVSubNoOverflow(A, B)), z3.Not(z3.BVSubNoUnderflow(A, B, True))) if sg else z3.ULT(A, B)
                return NONE() if ex.branch(ovf) else some(z3.simplify(A - B))
            ovf = z3.Or(z3.Not(z3.BVMulNoOverflow(A, B, sg)), z3.Not(z3.BVMulNoUnderflow(A, B))) if sg else z3.Not(z3.BVMulNoOverflow(A, B, False))
            return NONE() if ex.branch(ovf) else some(z3.simplify(A * B))
        x = to_signed(a, w) if sg else a
        y = to_signed(b, w) if sg else b
        if op in ('div', 'rem'):
            if y == 0 or (sg and x == lo and y == -1):
                return NONE()
            q = abs(x) // abs(y)
            q = q if (x < 0) == (y < 0) else -q
            r = q if op == 'div' else x - q * y
        else:
            r = x + y if op == 'add' else x - y if op == 'sub' else x * y
        return some(r & mask) if lo <= r <= hi else NONE()
    return f


for _t in ('u8', 'u16', 'u32', 'u64', 'usize', 'i32', 'i64', 'isize'):
    for _o in ('add', 'sub', 'mul'):
        REG['%s::wrapping_%s' % (_t, _o)] = make_wrapping(_o, _t)
    for _o in ('add', 'sub', 'mul', 'div', 'rem'):
        REG['%s::checked_%s' % (_t, _o)] = make_checked(_o, _t)


def make_checked_shift(kind, ty):
    w = W[ty]
    sg = ty in SIGNED

    def f(ex, a, n):
        if is_sym(n):
            n = ex.concretize_or_above(n, w)
        if n >= w:
            return NONE()
        if is_sym(a):
            if kind == 'shl':
                return some(z3.simplify(a << n))
            return some(z3.simplify((a >> n) if sg else z3.LShR(a, n)))
        if kind == 'shl':
            return some((a << n) & ((1 << w) - 1))
        return some((to_signed(a, w) >> n) & ((1 << w) - 1) if sg else a >> n)
    return f


for _t in ('u8', 'u16', 'u32', 'u64', 'usize', 'i32', 'i64'):
    REG['%s::checked_shr' % _t] = make_checked_shift('shr', _t)
    REG['%s::checked_shl' % _t] = make_checked_shift('shl', _t)


@nat('i64::abs')
def i64_abs(ex, a):
    if is_sym(a):
        if ex.branch(a == (1 << 63)):
            raise Panic('attempt to negate with overflow')     # debug profile; release wraps
        return z3.If(a < 0, -a, a)
    x = to_signed(a, 64)
    if x == -(1 << 63):
        raise Panic('attempt to negate with overflow')
    return abs(x)


@nat('u32::count_ones', 'u64::count_ones', 'u16::count_ones', 'u8::count_ones', 'usize::count_ones')
def count_ones(ex, a):
    if is_sym(a):
        n = a.size()
        return z3.simplify(z3.Sum([z3.ZeroExt(31, z3.Extract(i, i, a)) for i in range(n)]))
    return bin(a).count('1')


def _mk_bitcount(kind, ty):
    w = W[ty]

    def f(ex, a):
        if is_sym(a):
            A = bv(a, w)
            res = z3.BitVecVal(w, 32)
            rng = range(w) if kind == 'leading_zeros' else range(w - 1, -1, -1)
            # scan from the far end so that the bit nearest to the counted end wins
            for i in rng:
                cnt = (w - 1 - i) if kind == 'leading_zeros' else i
                res = z3.If(z3.Extract(i, i, A) == 1, z3.BitVecVal(cnt, 32), res)
            return z3.simplify(res)
        a &= (1 << w) - 1
        if a == 0:
            return w
        if kind == 'leading_zeros':
            return w - a.bit_length()
        return (a & -a).bit_length() - 1
    return f


def _mk_unsigned_misc(kind, ty):
    w = W[ty]
    mask = (1 << w) - 1

    def f(ex, a, b=None):
        if kind == 'is_power_of_two':
            if is_sym(a):
                A = bv(a, w)
                return z3.And(A != 0, (A & (A - 1)) == 0)
            return a != 0 and (a & (a - 1)) == 0
        if kind == 'abs_diff':
            if is_sym(a) or is_sym(b):
                A, B = bv(a, w), bv(b, w)
                return z3.If(z3.ULT(A, B), B - A, A - B)
            return abs(a - b)
        if kind == 'div_ceil':
            if is_sym(b):
                raise Unsupported('div_ceil by a symbolic divisor')
            if b == 0:
                raise Panic('attempt to divide by zero')
            if is_sym(a):
                A = bv(a, w)
                q = z3.UDiv(A, z3.BitVecVal(b, w))
                return z3.simplify(z3.If(z3.URem(A, z3.BitVecVal(b, w)) != 0, q + 1, q))
            return -(-a // b)
        if kind == 'pow2_shift':
            raise Unsupported(kind)
        raise Unsupported(kind)
    return f


for _t in ('u8', 'u16', 'u32', 'u64', 'usize', 'i32', 'i64'):
    REG['%s::leading_zeros' % _t] = _mk_bitcount('leading_zeros', _t)
    REG['%s::trailing_zeros' % _t] = _mk_bitcount('trailing_zeros', _t)
for _t in ('u8', 'u16', 'u32', 'u64', 'usize'):
    REG['%s::is_power_of_two' % _t] = _mk_unsigned_misc('is_power_of_two', _t)
    REG['%s::abs_diff' % _t] = _mk_unsigned_misc('abs_diff', _t)
    REG['%s::div_ceil' % _t] = _mk_unsigned_misc('div_ceil', _t)


def _mk_bytes(ty, order, to):
    w = W[ty]
    nb = w // 8

    def tob(ex, a):
        if is_sym(a):
            A = bv(a, w)
            bs = [z3.simplify(z3.Extract(8 * i + 7, 8 * i, A)) for i in range(nb)]
        else:
            bs = [(a >> (8 * i)) & 0xff for i in range(nb)]
        return bs[::-1] if order == 'be' else bs

    def fromb(ex, arr):
        items = arr.items if isinstance(arr, VecV) else list(arr)
        if len(items) != nb:
            raise Unsupported('from_%s_bytes on %d bytes' % (order, len(items)))
        bs = items if order == 'le' else items[::-1]
        if any(is_sym(x) for x in bs):
            return z3.simplify(z3.Concat(*[bv(x, 8) for x in bs[::-1]])) if nb > 1 else bv(bs[0], 8)
        return sum(b << (8 * i) for i, b in enumerate(bs))
    return tob if to else fromb


for _t in ('u16', 'u32', 'u64', 'usize', 'i32', 'i64'):
    for _o in ('be', 'le'):
        REG['%s::to_%s_bytes' % (_t, _o)] = _mk_bytes(_t, _o, True)
        REG['%s::from_%s_bytes' % (_t, _o)] = _mk_bytes(_t, _o, False)


@nat('RangeInclusive::new')
def range_inclusive_new(ex, lo, hi): return Adt('RangeInclusive', 0, [lo, hi])


@nat('RangeInclusive::start', 'RangeInclusive::end', want_callee=True)
def range_inclusive_bound(ex, callee, r):
    rg = D(ex, r)
    return Ref(Cell(rg.fields[0 if callee.rstrip('>').endswith('start') or '::start' in callee else 1]))


def _range_contains(inclusive):
    def f(ex, callee, r, x):
        rg = D(ex, r)
        v = D(ex, x) if isinstance(x, Ref) else x
        g = None
        for t in re.findall(r'<\s*&?\s*(\w+)\s*>', callee):
            if t in W:
                g = t
        if g is None:
            raise Unsupported('Range::contains on ' + callee)
        w, sg = W[g], g in SIGNED
        lo, hi = rg.fields[0], rg.fields[1]
        if is_sym(v) or is_sym(lo) or is_sym(hi):
            V, L, H = bv(v, w), bv(lo, w), bv(hi, w)
            ge = (V >= L) if sg else z3.UGE(V, L)
            le = ((V <= H) if sg else z3.ULE(V, H)) if inclusive else ((V < H) if sg else z3.ULT(V, H))
            return simp_bool(z3.And(ge, le))
        if sg:
            v, lo, hi = to_signed(v, w), to_signed(lo, w), to_signed(hi, w)
        return lo <= v <= hi if inclusive else lo <= v < hi
    f.want_callee = True
    return f


REG['RangeInclusive::contains'] = _range_contains(True)
REG['Range::contains'] = _range_contains(False)
REG['<RangeInclusive as RangeBounds>::contains'] = _range_contains(True)
REG['<Range as RangeBounds>::contains'] = _range_contains(False)


@nat('i64::saturating_abs')
def i64_saturating_abs(ex, a):
    if is_sym(a):
        return z3.If(a == (1 << 63), z3.BitVecVal((1 << 63) - 1, 64), z3.If(a < 0, -a, a))
    x = to_signed(a, 64)
    return min(abs(x), (1 << 63) - 1)


@nat('i64::wrapping_abs')
def i64_wrapping_abs(ex, a):
    if is_sym(a):
        return z3.If(a < 0, -a, a)
    return abs(to_signed(a, 64)) & ((1 << 64) - 1)


@nat('i64::unsigned_abs')
def i64_unsigned_abs(ex, a):
    if is_sym(a):
        return z3.If(a < 0, -a, a)
    return abs(to_signed(a, 64))


@nat('i64::pow', 'u64::pow', 'u32::pow', 'usize::pow')
def int_pow(ex, a, e):
    if is_sym(a) or is_sym(e):
        raise Unsupported('symbolic pow')
    r = a ** e
    if r >= (1 << 64):
        raise Panic('attempt to multiply with overflow')
    return r


def _minmax(kind, ty):
    w, sg = W[ty], ty in SIGNED

    def f(ex, a, b):
        if is_sym(a) or is_sym(b):
            A, B = bv(a, w), bv(b, w)
            c = (A < B) if sg else z3.ULT(A, B)
            return z3.If(c, A, B) if kind == 'min' else z3.If(c, B, A)
        x, y = (to_signed(a, w), to_signed(b, w)) if sg else (a, b)
        return (min(x, y) if kind == 'min' else max(x, y)) & ((1 << w) - 1)
    return f


for _t in ('u8', 'u32', 'u64', 'usize', 'i64', 'i32'):
    REG['<%s as Ord>::min' % _t] = _minmax('min', _t)
    REG['<%s as Ord>::max' % _t] = _minmax('max', _t)
    REG['cmp::min::<%s>' % _t] = _minmax('min', _t)


@nat('cmp::min', 'cmp::max', want_callee=True)
def cmp_minmax(ex, callee, a, b):
    g = generic_of(callee)
    kind = 'min' if 'min' in callee.split('::')[-2:][0] or callee.rstrip('>').split('::<')[0].endswith('min') else 'max'
    if g in W:
        return _minmax(kind, g)(ex, a, b)
    raise Unsupported('cmp::min/max on ' + str(g))


def _int_convert(ex, v, src, dst, checked):
    """integer conversion src -> dst on the engine's value representation (concrete: unsigned two's complement python int;
    symbolic: bit-vector of the source width).  checked: TryFrom semantics (Err when the value does not fit)."""
    ws, wd = W[src], W[dst]
    if v.__class__ is bool:
        v = int(v)
    if is_sym(v):
        if z3.is_bool(v):
            v = z3.If(v, z3.BitVecVal(1, 8), z3.BitVecVal(0, 8)); ws = 8; src = 'u8'
        ws = v.size()
        wide = max(ws, wd) + 1
        ext = (lambda x, w, sg: z3.SignExt(w - x.size(), x) if sg else z3.ZeroExt(w - x.size(), x))
        big = ext(v, wide, src in SIGNED)
        out = z3.simplify(z3.Extract(wd - 1, 0, big))
        if not checked:
            return out
        back = ext(out, wide, dst in SIGNED)
        fits = ex.branch(simp_bool(back == big))
        return OK(out) if fits else ERR(Opaque('TryFromIntError'))
    val = v - (1 << ws) if (src in SIGNED and v >> (ws - 1)) else v
    lo, hi = (-(1 << (wd - 1)), (1 << (wd - 1)) - 1) if dst in SIGNED else (0, (1 << wd) - 1)
    if checked and not (lo <= val <= hi):
        return ERR(Opaque('TryFromIntError'))
    out = val & ((1 << wd) - 1)
    return OK(out) if checked else out


def _conv_types(callee):
    """(self type, trait argument) of `<A as From<B>>::from` style callees"""
    m = re.match(r'<\s*([\w:]+)\s+as\s+(?:[\w:]+::)?(From|Into|TryFrom|TryInto)<\s*([\w:]+)\s*>>', callee)
    if not m:
        return None
    return m.group(1).split('::')[-1], m.group(2), m.group(3).split('::')[-1]


def _mk_conv(default):
    def conv(ex, callee, v):
        t = _conv_types(callee)
        if t is None or t[0] not in W or t[2] not in W:
            if default is None:
                raise Unsupported('integer conversion ' + callee)
            return default(ex, v)
        a, tr, b = t
        src, dst = (b, a) if tr in ('From', 'TryFrom') else (a, b)
        return _int_convert(ex, v, src, dst, tr in ('TryFrom', 'TryInto'))
    conv.want_callee = True
    return conv


for _t in W:
    REG['<%s as From>::from' % _t] = _mk_conv(lambda ex, v: v)
    REG['<%s as Into>::into' % _t] = _mk_conv(lambda ex, v: v)
    REG['<%s as TryFrom>::try_from' % _t] = _mk_conv(None)
    REG['<%s as TryInto>::try_into' % _t] = _mk_conv(None)


@nat('f64::to_bits')
def f64_to_bits(ex, a): return struct.unpack('<Q', struct.pack('<d', a))[0]


@nat('f64::from_bits')
def f64_from_bits(ex, a):
    if is_sym(a):
        raise Unsupported('f64::from_bits of symbolic value')
    return struct.unpack('<d', struct.pack('<Q', a))[0]


@nat('f64::abs')
def f64_abs(ex, a): return abs(a)


@nat('f64::fract')
def f64_fract(ex, a): return a - math.trunc(a) if math.isfinite(a) else float('nan')


@nat('f64::trunc')
def f64_trunc(ex, a): return float(math.trunc(a)) if math.isfinite(a) else a


@nat('f64::floor')
def f64_floor(ex, a): return float(math.floor(a)) if math.isfinite(a) else a


@nat('f64::ceil')
def f64_ceil(ex, a): return float(math.ceil(a)) if math.isfinite(a) else a


@nat('f64::round')
def f64_round(ex, a):
    if not math.isfinite(a):
        return a
    return float(math.floor(abs(a) + 0.5)) * (1 if a >= 0 else -1)


@nat('f64::is_nan')
def f64_is_nan(ex, a): return a != a


@nat('f64::is_finite')
def f64_is_finite(ex, a): return math.isfinite(a)


@nat('f64::is_infinite')
def f64_is_infinite(ex, a): return math.isinf(a)


@nat('f64::powf', 'f64::powi')
def f64_pow(ex, a, b):
    try:
        return float(a) ** (to_signed(b, 32) if isinstance(b, int) else b)
    except (OverflowError, ZeroDivisionError):
        return float('inf')


@nat('f64::sqrt')
def f64_sqrt(ex, a): return math.sqrt(a) if a >= 0 else float('nan')


def _fop(op):
    from .execu import float_binop
    r = float_binop(op)
    return lambda ex, a, b: r(ex, D(ex, a), D(ex, b))


REG['<f64 as Add>::add'] = _fop('Add')
REG['<f64 as Sub>::sub'] = _fop('Sub')
REG['<f64 as Mul>::mul'] = _fop('Mul')
REG['<f64 as Div>::div'] = _fop('Div')
REG['<f64 as Rem>::rem'] = _fop('Rem')


@nat('<i64 as Rem>::rem')
def i64_rem(ex, a, b):
    from .execu import int_binop
    return int_binop('Rem', 64, True)(ex, a, b)


@nat('<i64 as Div>::div')
def i64_div(ex, a, b):
    from .execu import int_binop
    return int_binop('Div', 64, True)(ex, a, b)


@nat('<bool as Not>::not')
def bool_not(ex, a): return neg(D(ex, a))


def _cmp_str(ex, a, b):
    x, y = D(ex, a).s.encode('utf-8'), D(ex, b).s.encode('utf-8')
    return (x > y) - (x < y)


REG['<String as PartialOrd>::lt'] = lambda ex, a, b: _cmp_str(ex, a, b) < 0
REG['<String as PartialOrd>::le'] = lambda ex, a, b: _cmp_str(ex, a, b) <= 0
REG['<String as PartialOrd>::gt'] = lambda ex, a, b: _cmp_str(ex, a, b) > 0
REG['<String as PartialOrd>::ge'] = lambda ex, a, b: _cmp_str(ex, a, b) >= 0
REG['<str as PartialOrd>::lt'] = REG['<String as PartialOrd>::lt']
REG['<String as Ord>::cmp'] = lambda ex, a, b: Adt('Ordering', _cmp_str(ex, a, b) + 1, [])
REG['<str as Ord>::cmp'] = REG['<String as Ord>::cmp']


def _int_cmp(ty):
    w, sg = W[ty], ty in SIGNED

    def f(ex, a, b):
        a, b = D(ex, a), D(ex, b)
        if is_sym(a) or is_sym(b):
            A, B = bv(a, w), bv(b, w)
            lt = (A < B) if sg else z3.ULT(A, B)
            i = ex.choose([simp_bool(lt), simp_bool(A == B), simp_bool(z3.And(z3.Not(lt), A != B))])
            return Adt('Ordering', i, [])
        x, y = (to_signed(a, w), to_signed(b, w)) if sg else (a, b)
        return Adt('Ordering', (x > y) - (x < y) + 1, [])
    return f


for _t in ('u8', 'u32', 'u64', 'usize', 'i64', 'i32'):
    REG['<%s as Ord>::cmp' % _t] = _int_cmp(_t)


@nat('<f64 as PartialOrd>::partial_cmp')
def f64_partial_cmp(ex, a, b):
    a, b = D(ex, a), D(ex, b)
    if a != a or b != b:
        return NONE()
    return some(Adt('Ordering', (a > b) - (a < b) + 1, []))


@nat('Ordering::reverse')
def ordering_reverse(ex, o): return Adt('Ordering', 2 - o.variant, [])


@nat('Ordering::is_lt')
def ordering_is_lt(ex, o): return o.variant == 0


# ---- parsing
_INT_RE = re.compile(r'[+-]?\d+$')
_FLOAT_RE = re.compile(r'[+-]?(?:(?:\d+\.?\d*(?:[eE][+-]?\d+)?)|(?:\.\d+(?:[eE][+-]?\d+)?)|inf|infinity|nan)$', re.I)


@nat('str::parse', want_callee=True)
def str_parse(ex, callee, r):
    g = generic_of(callee)
    st = D(ex, r)
    if not st.is_concrete():
        return parse_symbolic(ex, g, st)
    t = st.s
    if g in W and g not in ('bool', 'char'):
        w, sg = W[g], g in SIGNED
        if not _INT_RE.match(t) or (not sg and t.startswith('-')):
            return ERR(Opaque('ParseIntError'))
        v = int(t)
        lo, hi, mask = _sat(w, sg)
        if not lo <= v <= hi:
            return ERR(Opaque('ParseIntError'))
        return OK(v & mask)
    if g == 'f64':
        if not _FLOAT_RE.match(t):
            return ERR(Opaque('ParseFloatError'))
        return OK(float(t))
    if g == 'bool':
        return OK(t == 'true') if t in ('true', 'false') else ERR(Opaque('ParseBoolError'))
    raise Unsupported('str::parse::<%s>' % g)


def parse_symbolic(ex, g, st):
    """parse of a string of symbolic chars: the all-digits case is the positional value (with overflow check)"""
    if g == 'f64':
        # over-approximation (engine M has no symbolic floats): the parse either fails or yields some float that is
        # never inspected symbolically (any arithmetic on it is Unsupported)
        k = ex.fresh('bool', 'parse_f64_ok')
        return OK(float('nan')) if ex.branch(k) else ERR(Opaque('ParseFloatError'))
    if g not in ('i64', 'u32', 'u64', 'usize', 'i32'):
        raise Unsupported('parse::<%s> on symbolic text' % g)
    w, sg = W[g], g in SIGNED
    chars = st.chars
    if not chars:
        return ERR(Opaque('ParseIntError'))
    digs = []
    for c in chars:
        isd = simp_bool(z3.And(z3.UGE(bv(c, 32), 48), z3.ULE(bv(c, 32), 57)))
        if not ex.branch(isd):
            # sign characters etc.: over-approximate by "fails or yields an arbitrary value"
            k = ex.fresh('bool', 'parse_int_ok')
            return OK(ex.fresh(g, 'parsed')) if ex.branch(k) else ERR(Opaque('ParseIntError'))
        digs.append(c)
    if len(digs) > 18:
        raise Unsupported('symbolic number longer than 18 digits')
    acc = z3.BitVecVal(0, w)
    for c in digs:
        d = z3.Extract(w - 1, 0, z3.ZeroExt(32, bv(c, 32) - 48)) if w > 32 else z3.Extract(w - 1, 0, bv(c, 32) - 48)
        acc = acc * 10 + d
    return OK(z3.simplify(acc))


@nat('u32::from_str_radix', 'i64::from_str_radix', 'u64::from_str_radix', 'u8::from_str_radix', want_callee=True)
def from_str_radix(ex, callee, r, radix):
    t = D(ex, r).s
    ty = callee.split('::')[-2] if '::' in callee else 'u32'
    ty = ty if ty in W else 'u32'
    try:
        v = int(t, radix)
    except ValueError:
        return ERR(Opaque('ParseIntError'))
    if ('_' in t) or t.strip() != t:
        return ERR(Opaque('ParseIntError'))
    lo, hi, mask = _sat(W[ty], ty in SIGNED)
    if not lo <= v <= hi:
        return ERR(Opaque('ParseIntError'))
    return OK(v & mask)


# ====================================================================== formatting
def fmt_float(v):
    """Rust `{}` Display of f64"""
    if v != v:
        return 'NaN'
    if v == float('inf'):
        return 'inf'
    if v == float('-inf'):
        return '-inf'
    r = repr(float(v))
    if 'e' in r or 'E' in r:
        from decimal import Decimal
        r = format(Decimal(r), 'f')
    if r.endswith('.0'):
        r = r[:-2]
    return r


def parse_template(b):
    """new-style fmt::Arguments template bytes -> list of ('lit', text) / ('arg', index or None)"""
    out = []
    i = 0
    nxt = 0
    while i < len(b):
        c = b[i]
        if c == 0:
            break
        if c < 0x80:
            out.append(('lit', bytes(b[i + 1:i + 1 + c]).decode('utf-8')))
            i += 1 + c
        elif c == 0x80:
            n = b[i + 1] | (b[i + 2] << 8)
            out.append(('lit', bytes(b[i + 3:i + 3 + n]).decode('utf-8')))
            i += 3 + n
        elif c >= 0xC0:
            flags = c & 0x3f
            i += 1
            idx = None
            if flags & 1:
                i += 4
            if flags & 2:
                i += 2
            if flags & 4:
                i += 2
            if flags & 8:
                idx = b[i] | (b[i + 1] << 8)
                i += 2
            if idx is None:
                idx = nxt
            nxt = idx + 1
            out.append(('arg', idx))
        else:
            raise Unsupported('format template byte %#x' % c)
    return out


@nat('Arguments::new', 'Arguments::new_const', 'Arguments::new_v1')
def arguments_new(ex, tmpl, args=None):
    t = D(ex, tmpl)
    a = D(ex, args) if args is not None else VecV([])
    return Adt('Arguments', 0, [t, a])


@nat('Arguments::from_str', 'Arguments::from_str_nonconst')
def arguments_from_str(ex, s_):
    return Adt('Arguments', 1, [D(ex, s_)])


@nat('Argument::new_display', 'Argument::new_debug', 'Argument::new_lower_hex', 'Argument::new_upper_hex', want_callee=True)
def argument_new(ex, callee, r):
    kind = 'debug' if 'new_debug' in callee else 'display'
    return Adt('Argument', 0, [kind, r, generic_of(callee) or ''])


@nat('Argument::from_usize')
def argument_from_usize(ex, r): return Adt('Argument', 0, ['usize', r, 'usize'])


def display_value(ex, v, ty, kind='display'):
    """chars of the Display rendering of v"""
    v0 = v
    v = D(ex, v)
    ty = re.sub(r"^(&(?:'\w+ )?(?:mut )?)+", '', ty or '')
    if isinstance(v, StrV):
        if kind == 'debug':
            return [34] + list(v.chars) + [34]
        return list(v.chars)
    if isinstance(v, bool):
        return [ord(c) for c in ('true' if v else 'false')]
    if isinstance(v, float):
        return [ord(c) for c in fmt_float(v)]
    if isinstance(v, int):
        if ty == 'char':
            return [v]
        if ty in SIGNED:
            v = to_signed(v, W[ty])
        return [ord(c) for c in str(v)]
    if is_sym(v):
        if z3.is_bool(v):
            raise Unsupported('format of symbolic bool')
        if ty == 'char':
            return [v]
        return [SymPiece(v, ty in SIGNED)]
    if isinstance(v, Adt):
        if v.name in ('Box', 'Arc'):
            return display_value(ex, v.fields[0].v, ty, kind)
        if v.name == 'MutexGuard':
            return display_value(ex, v.fields[0].cell.v, ty, kind)
        if v.name == 'Cow':
            return display_value(ex, v.fields[0], ty, kind)
        if v.name == 'Arguments':
            return render_arguments(ex, v)
        if v.name == 'IoError':
            return [ord(c) for c in '<io error: %s>' % v.fields[0]]
        if kind == 'debug':
            return [ord(c) for c in '<%s:?>' % v.name]
        impl = ex.prog.traitimpl.get((v.name, 'Display', 'fmt'))
        if impl is not None:
            buf = StrV('')
            f = Adt('Formatter', 0, [buf])
            r = ex.run(impl, [ex.base_ref(v0) if isinstance(v0, Ref) else Ref(Cell(v)), Ref(Cell(f))])
            return buf.chars
        raise Unsupported('Display of %s' % v.name)
    if isinstance(v, Opaque):
        return [ord(c) for c in '<%s>' % v.what]
    if kind == 'debug':
        return [ord(c) for c in '<?>']
    raise Unsupported('Display of %r' % (v,))


def render_arguments(ex, a):
    if a.variant == 1:
        return list(a.fields[0].chars)
    t, args = a.fields
    tb = t.items if isinstance(t, VecV) else t.vec.items[t.lo:t.hi]
    out = []
    items = args.items if isinstance(args, VecV) else []
    for kind, x in parse_template(tb):
        if kind == 'lit':
            out.extend(ord(c) for c in x)
        else:
            arg = items[x]
            out.extend(display_value(ex, arg.fields[1], arg.fields[2], arg.fields[0]))
    return out


@nat('fmt::format', 'fmt::format_inner', 'format')
def fmt_format(ex, a): return StrV(render_arguments(ex, a))


@nat('Arguments::as_str')
def arguments_as_str(ex, r):
    a = D(ex, r)
    return some(Ref(Cell(a.fields[0]))) if a.variant == 1 else NONE()


@nat('io::_print', '_print', 'stdio::_print', 'io::_eprint', 'stdio::_eprint', '_eprint')
def io_print(ex, a): return ()


@nat('Formatter::write_str', '<Formatter as Write>::write_str', '<String as Write>::write_str')
def formatter_write_str(ex, f, s_):
    fm = D(ex, f)
    buf = fm.fields[0] if isinstance(fm, Adt) else fm
    buf.chars.extend(D(ex, s_).chars)
    return OK(())


@nat('Formatter::write_fmt', '<Formatter as Write>::write_fmt', '<String as Write>::write_fmt', '<* as fmt::Write>::write_fmt')
def formatter_write_fmt(ex, f, a):
    fm = D(ex, f)
    buf = fm.fields[0] if isinstance(fm, Adt) else fm
    buf.chars.extend(render_arguments(ex, a))
    return OK(())


@nat('<String as Write>::write_char', 'Formatter::write_char')
def formatter_write_char(ex, f, c):
    fm = D(ex, f)
    buf = fm.fields[0] if isinstance(fm, Adt) else fm
    buf.chars.append(c)
    return OK(())


def _dbg(ex, f, *a):
    fm = D(ex, f)
    fm.fields[0].chars.extend(ord(c) for c in '<dbg>')
    return OK(())


for _k in ['Formatter::debug_struct_field1_finish', 'Formatter::debug_struct_field2_finish', 'Formatter::debug_struct_field3_finish',
           'Formatter::debug_struct_field4_finish', 'Formatter::debug_struct_field5_finish', 'Formatter::debug_struct_fields_finish',
           'Formatter::debug_tuple_field1_finish', 'Formatter::debug_tuple_field2_finish', 'Formatter::debug_tuple_fields_finish', 'Formatter::pad']:
    REG[_k] = _dbg


@nat('Formatter::debug_struct')
def formatter_debug_struct(ex, f, name): return Adt('DebugStruct', 0, [f])


@nat('DebugStruct::field')
def debug_struct_field(ex, r, *a): return r


@nat('DebugStruct::finish')
def debug_struct_finish(ex, r): return OK(())


@nat('<* as Display>::fmt', '<String as Display>::fmt', '<str as Display>::fmt', '<u32 as Display>::fmt', '<i64 as Display>::fmt', '<f64 as Display>::fmt', '<usize as Display>::fmt', '<bool as Display>::fmt', want_callee=True)
def display_fmt(ex, callee, v, f):
    m = re.match(r'<(.*) as ', callee)
    fm = D(ex, f)
    fm.fields[0].chars.extend(display_value(ex, v, m.group(1) if m else ''))
    return OK(())


@nat('<* as Debug>::fmt', '<Box as Debug>::fmt', '<String as Debug>::fmt', '<Vec as Debug>::fmt', '<Option as Debug>::fmt')
def debug_fmt(ex, v, f): return _dbg(ex, f)


@nat('<* as ToString>::to_string', '<Data as ToString>::to_string', '<DataArc as ToString>::to_string', '<MutexGuard as ToString>::to_string',
     '<i64 as ToString>::to_string', '<u64 as ToString>::to_string', '<f64 as ToString>::to_string', '<u32 as ToString>::to_string',
     '<usize as ToString>::to_string', '<Error as ToString>::to_string', '<ParseFloatError as ToString>::to_string', '<ParseIntError as ToString>::to_string',
     '<PoisonError as ToString>::to_string', '<bool as ToString>::to_string', '<char as ToString>::to_string', '<i32 as ToString>::to_string', '<u8 as ToString>::to_string', want_callee=True)
def to_string(ex, callee, r):
    m = re.match(r'<(.*) as ', callee)
    return StrV(display_value(ex, r, m.group(1) if m else ''))
