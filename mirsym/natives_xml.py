"""Environment model of the quick-xml surface used by rFSM's scxml_reader (C04): an event source over concrete XML text.
This replaces the lexical layer (quick-xml itself is not encoded); everything above it — ReaderState::process, start_element
dispatch, all start_*/end_* handlers, decode_attributes — is rFSM code and is interpreted."""
import re
from .values import *
from .natives import nat, REG, D

# discriminants of quick_xml::events::Event (0.36): Start End Empty Text CData Comment Decl PI DocType Eof
EV_START, EV_END, EV_EMPTY, EV_TEXT, EV_CDATA, EV_COMMENT, EV_DECL, EV_PI, EV_DOCTYPE, EV_EOF = range(10)

_TOKEN = re.compile(r'<!--(.*?)-->|<\?(.*?)\?>|<!\[CDATA\[(.*?)\]\]>|<!DOCTYPE[^>]*>|</\s*([^\s>]+)\s*>|<([^\s/>]+)((?:\s+[^\s=/>]+\s*=\s*(?:"[^"]*"|\'[^\']*\'))*)\s*(/?)>|([^<]+)', re.S)
_ATTR = re.compile(r'([^\s=/>]+)\s*=\s*(?:"([^"]*)"|\'([^\']*)\')', re.S)
_ENT = {'lt': '<', 'gt': '>', 'amp': '&', 'quot': '"', 'apos': "'"}


def unescape(t):
    def r(m):
        e = m.group(1)
        if e.startswith('#x'):
            return chr(int(e[2:], 16))
        if e.startswith('#'):
            return chr(int(e[1:]))
        if e in _ENT:
            return _ENT[e]
        raise Unsupported('XML entity &%s;' % e)
    return re.sub(r'&([^;]+);', r, t)


def tokenize(text):
    """-> list of (kind, payload, byte_start, byte_end)"""
    evs = []
    pos = 0
    blen = lambda s: len(s.encode('utf-8'))
    for m in _TOKEN.finditer(text):
        if m.start() != pos:
            raise Unsupported('XML text outside the canonical subset at %d' % pos)
        pos = m.end()
        bs, be = blen(text[:m.start()]), blen(text[:m.end()])
        if m.group(1) is not None:
            evs.append((EV_COMMENT, m.group(1), bs, be))
        elif m.group(2) is not None:
            evs.append((EV_DECL if m.group(2).startswith('xml') else EV_PI, m.group(2), bs, be))
        elif m.group(3) is not None:
            evs.append((EV_CDATA, m.group(3), bs, be))
        elif m.group(0).startswith('<!DOCTYPE'):
            evs.append((EV_DOCTYPE, '', bs, be))
        elif m.group(4) is not None:
            evs.append((EV_END, m.group(4), bs, be))
        elif m.group(5) is not None:
            # attribute values stay raw (escaped), as in quick-xml: Attribute::decode_and_unescape_value resolves the references
            attrs = [(a.group(1), a.group(2) if a.group(2) is not None else a.group(3)) for a in _ATTR.finditer(m.group(6) or '')]
            evs.append((EV_EMPTY if m.group(7) else EV_START, (m.group(5), attrs), bs, be))
        else:
            t = m.group(8)
            if t.strip():                       # trim_text(true): whitespace-only text is dropped, other text is trimmed
                evs.append((EV_TEXT, t.strip(), bs, be))
    if pos != len(text):
        raise Unsupported('XML text outside the canonical subset at %d' % pos)
    return evs


def local(name):
    return name.split(':', 1)[1] if ':' in name else name


_PH0 = 0xE000     # private-use placeholders standing for symbolic characters during tokenisation


def _sym_text(ex, sv):
    """concrete text with one placeholder per symbolic character + the placeholder map.  A symbolic character is assumed to be an
    ASCII letter or digit (one byte, no markup meaning): stated in the evidence of C04."""
    import z3
    out, ph = [], {}
    for c in sv.chars:
        if isinstance(c, int):
            out.append(chr(c))
        elif isinstance(c, SymPiece):
            raise Unsupported('formatted symbolic integer inside XML text')
        else:
            k = _PH0 + len(ph)
            ph[k] = c
            ex.assume(z3.Or(z3.And(z3.UGE(c, ord('a')), z3.ULE(c, ord('z'))), z3.And(z3.UGE(c, ord('A')), z3.ULE(c, ord('Z'))), z3.And(z3.UGE(c, ord('0')), z3.ULE(c, ord('9')))))
            out.append(chr(k))
    return ''.join(out), ph


def _mk(rd, t):
    """python text (possibly with placeholders) -> StrV"""
    ph = rd.fields[3]
    return StrV([ph.get(ord(c), ord(c)) for c in t]) if ph else StrV(t)


@nat('Reader::from_str')
def reader_from_str(ex, s):
    text, ph = _sym_text(ex, D(ex, s))
    toks = tokenize(text)
    if ph:
        # byte offsets: a placeholder (3 bytes in UTF-8) stands for a one-byte character
        fix = lambda off: off - 2 * sum(1 for c in text.encode('utf-8')[:off].decode('utf-8', 'ignore') if ord(c) in ph)
        toks = [(k, p, fix(bs), fix(be)) for k, p, bs, be in toks]
    return Adt('XReader', 0, [toks, 0, text, ph])


@nat('Reader::config_mut')
def reader_config_mut(ex, r): return Ref(Cell(Adt('XConfig', 0, [])))


@nat('Config::trim_text')
def config_trim_text(ex, r, b): return ()


@nat('Reader::buffer_position')
def reader_buffer_position(ex, r):
    rd = D(ex, r)
    evs, i = rd.fields[0], rd.fields[1]
    return evs[i - 1][3] if i > 0 and i <= len(evs) else 0


@nat('Reader::decoder')
def reader_decoder(ex, r): return Adt('Decoder', 0, [])


def _bytes_start(name, attrs, ph=None):
    return Adt('BytesStart', 0, [StrV(name), attrs, ph or {}])


def _mkp(ph, t):
    return StrV([ph.get(ord(c), ord(c)) for c in t]) if ph else StrV(t)


@nat('Reader::read_event')
def reader_read_event(ex, r):
    rd = D(ex, r)
    evs, i = rd.fields[0], rd.fields[1]
    if i >= len(evs):
        return OK(Adt('XmlEvent', EV_EOF, []))
    rd.fields[1] = i + 1
    kind, payload, _, _ = evs[i]
    if kind in (EV_START, EV_EMPTY):
        return OK(Adt('XmlEvent', kind, [_bytes_start(payload[0], payload[1], rd.fields[3])]))
    if kind == EV_END:
        return OK(Adt('XmlEvent', kind, [Adt('BytesEnd', 0, [StrV(payload)])]))
    if kind in (EV_TEXT, EV_CDATA, EV_COMMENT):
        return OK(Adt('XmlEvent', kind, [Adt('BytesText', 0, [StrV(payload), rd.fields[3]])]))
    return OK(Adt('XmlEvent', kind, [Adt('BytesText', 0, [StrV(str(payload)), rd.fields[3]])]))


@nat('Reader::read_to_end_into', 'Reader::read_to_end')
def reader_read_to_end_into(ex, r, qname, *buf):
    """skips to the end tag matching `qname` (nesting aware) and returns the byte span of the skipped content"""
    rd = D(ex, r)
    evs, i = rd.fields[0], rd.fields[1]
    want = D(ex, qname)
    want = want.fields[0].s if isinstance(want, Adt) else want.s
    depth = 0
    start = evs[i - 1][3] if i > 0 else 0
    j = i
    while j < len(evs):
        kind, payload, bs, be = evs[j]
        if kind == EV_START and payload[0] == want:
            depth += 1
        elif kind == EV_END and payload == want:
            if depth == 0:
                rd.fields[1] = j + 1
                return OK(Adt('Range', 0, [start, bs]))
            depth -= 1
        j += 1
    return ERR(Opaque('xml: missing end tag'))


@nat('BytesStart::local_name', 'BytesEnd::local_name')
def bytes_local_name(ex, r):
    e = D(ex, r)
    return Ref(Cell(VecV(list(local(e.fields[0].s).encode('utf-8')))))


@nat('BytesStart::name', 'BytesEnd::name')
def bytes_name(ex, r):
    e = D(ex, r)
    return Adt('QName', 0, [StrV(e.fields[0].s)])


@nat('<LocalName as AsRef>::as_ref', '<QName as AsRef>::as_ref')
def name_as_ref(ex, r):
    v = D(ex, r)
    if isinstance(v, Adt):
        return Ref(Cell(VecV(list(v.fields[0].s.encode('utf-8')))))
    return r


@nat('BytesStart::new')
def bytes_start_new(ex, name): return _bytes_start(D(ex, name).s, [])


@nat('BytesStart::to_end')
def bytes_start_to_end(ex, r): return Adt('BytesEnd', 0, [StrV(D(ex, r).fields[0].s)])


@nat('BytesEnd::into_owned', 'BytesStart::into_owned', 'BytesText::into_owned')
def bytes_into_owned(ex, e): return e


@nat('BytesStart::attributes')
def bytes_attributes(ex, r):
    e = D(ex, r)
    items = [OK(Adt('Attribute', 0, [Adt('QName', 0, [StrV(k)]), _mkp(e.fields[2], v)])) for k, v in e.fields[1]]
    return Adt('ListIter', 0, [items, 0])


@nat('Decoder::decode')
def decoder_decode(ex, d, b):
    v = D(ex, b)
    if isinstance(v, Adt):
        return OK(Ref(Cell(StrV(v.fields[0].s))))
    if isinstance(v, StrV):
        # the raw bytes of an attribute value (Attribute.value): decoding does not resolve entity references
        return OK(Ref(Cell(StrV(v.chars))))
    return OK(Ref(Cell(StrV(bytes(v.items).decode('utf-8')))))


@nat('Attribute::decode_and_unescape_value', 'Attribute::unescape_value')
def attribute_value(ex, r, *a):
    at = D(ex, r)
    sv = at.fields[1]
    if sv.is_concrete():
        return OK(Ref(Cell(StrV(unescape(sv.s)))))
    text, ph = _sym_text(ex, sv)
    return OK(Ref(Cell(_mkp(ph, unescape(text)))))


@nat('BytesText::unescape')
def bytes_text_unescape(ex, r):
    t = D(ex, r)
    return OK(Ref(Cell(_mkp(t.fields[1] if len(t.fields) > 1 else None, unescape(t.fields[0].s)))))


# ---- std::path surface touched by ReaderState::new (the path is only a label for messages when parsing from a string)
@nat('Path::new')
def path_new(ex, s, *a): return s


@nat('Path::to_path_buf', 'PathBuf::from', 'Path::to_owned')
def path_to_path_buf(ex, p, *a):
    v = D(ex, p)
    return StrV(v.s) if isinstance(v, StrV) else v


@nat('unescape', 'escape::unescape')
def escape_unescape(ex, r):
    """quick_xml::escape::unescape(&str) -> Result<Cow<str>, EscapeError>: predefined and numeric entity references"""
    sv = D(ex, r)
    if not sv.is_concrete():
        text, ph = _sym_text(ex, sv)
        try:
            return OK(_mkp(ph, unescape(text)))
        except Unsupported:
            return ERR(Opaque('EscapeError'))
    s = sv.s
    try:
        return OK(StrV(unescape(s)))
    except Unsupported:
        return ERR(Opaque('EscapeError'))
