"""Environment models: sync primitives, channels, threads, timers, clocks, byte I/O, atomics, Any-downcasts."""
import re
import z3
from .values import *
from .execu import bv, simp_bool, seq_len, to_signed, zbool
from .mirparse import W, SIGNED
from .natives import nat, REG, D, generic_of, and_all, neg, clone_value, eq_values


# ====================================================================== Mutex (holder tracking)
@nat('Mutex::new', '<Mutex as From>::from')
def mutex_new(ex, v):
    """the label names the lock class (by the protected type) and instance (creation order): G = GlobalData, E = ExecutorState,
    P = event I/O processor, V = data value, A = action map, R = receiver, F = datamodel factories"""
    d = v
    while isinstance(d, Adt) and d.name in ('Box', 'Arc'):
        d = d.fields[0].v
    n = d.name if isinstance(d, Adt) else type(d).__name__
    cls = {'GlobalData': 'G', 'ExecutorState': 'E', 'Data': 'V', 'Receiver': 'R', 'MapV': 'A'}.get(n)
    if cls is None:
        cls = 'P' if 'Processor' in n else n
    k = ex.env.setdefault('mutex_count', {})
    k[cls] = k.get(cls, 0) + 1
    return MutexV(Cell(v), '%s%d' % (cls, k[cls]))


@nat('Mutex::lock')
def mutex_lock(ex, r):
    m = D(ex, r)
    ex.lock(m)
    return OK(Adt('MutexGuard', 0, [m]))


@nat('Mutex::try_lock')
def mutex_try_lock(ex, r):
    m = D(ex, r)
    if m.holder is not None:
        return ERR(Opaque('WouldBlock'))
    ex.lock(m)
    return OK(Adt('MutexGuard', 0, [m]))


@nat('<MutexGuard as Deref>::deref', '<MutexGuard as DerefMut>::deref_mut')
def guard_deref(ex, r):
    g = D(ex, r)
    return Ref(g.fields[0].cell)


@nat('Mutex::get_mut')
def mutex_get_mut(ex, r): return OK(Ref(D(ex, r).cell))


@nat('Mutex::into_inner')
def mutex_into_inner(ex, m): return OK(m.cell.v)


@nat('Mutex::is_poisoned')
def mutex_is_poisoned(ex, r): return False


# ====================================================================== panic::catch_unwind
@nat('panic::catch_unwind', 'catch_unwind')
def catch_unwind(ex, f):
    """runs the closure; a panic inside comes back as Err(payload).  Unwinding drops the guards of the frames it leaves, which
    would poison their mutexes: poisoning is not modelled, so a panic that unwinds through a lock taken inside the closure is
    outside the encoding (Unsupported), never silently accepted."""
    held_before = list(ex.held)
    nerr = len(ex.errstack)
    while isinstance(f, Ref):
        f = ex.read(f)
    if isinstance(f, Adt) and f.name == 'AssertUnwindSafe':
        f = f.fields[0]
    try:
        return OK(ex.call_value(f, []))
    except Panic as e:
        inside = [m for m in ex.held if m not in held_before]
        if inside:
            raise Unsupported('panic unwinds through held mutex guard(s) %s inside catch_unwind (poisoning is not modelled)' % ', '.join(str(m.label or m.uid) for m in inside))
        del ex.errstack[nerr:]
        ex.env.setdefault('caught_panics', []).append(str(e)[:200])
        return ERR(Opaque('panic payload'))


@nat('AssertUnwindSafe')
def assert_unwind_safe(ex, v): return Adt('AssertUnwindSafe', 0, [v])


# ====================================================================== atomics (sequential)
@nat('Atomic::new', 'AtomicU32::new', 'AtomicUsize::new', 'AtomicBool::new', 'AtomicU64::new')
def atomic_new(ex, v): return Adt('Atomic', 0, [v])


@nat('Atomic::fetch_add', 'AtomicU32::fetch_add', 'AtomicUsize::fetch_add', 'AtomicU64::fetch_add')
def atomic_fetch_add(ex, r, n, order):
    a = D(ex, r)
    old = a.fields[0]
    a.fields[0] = (old + n) & 0xffffffffffffffff if not is_sym(old) else old + n
    return old


@nat('Atomic::load', 'AtomicU32::load', 'AtomicBool::load', 'AtomicUsize::load')
def atomic_load(ex, r, order): return D(ex, r).fields[0]


@nat('Atomic::store', 'AtomicU32::store', 'AtomicBool::store', 'AtomicUsize::store')
def atomic_store(ex, r, v, order):
    D(ex, r).fields[0] = v
    return ()


# ====================================================================== mpsc channels (unbounded FIFO)
@nat('mpsc::channel')
def channel(ex):
    q = Cell({'items': [], 'rx_alive': True, 'label': None})
    return [Adt('Sender', 0, [q]), Adt('Receiver', 0, [q])]


@nat('Sender::send')
def sender_send(ex, r, v):
    q = D(ex, r).fields[0].v
    if not q['rx_alive']:
        return ERR(v)
    q['items'].append(v)
    ex.env.setdefault('send_log', []).append((q.get('label'), v))
    return OK(())


@nat('Receiver::recv')
def receiver_recv(ex, r):
    q = D(ex, r).fields[0].v
    if not q['items']:
        raise Blocked('recv on empty channel')
    return OK(q['items'].pop(0))


@nat('Receiver::try_recv')
def receiver_try_recv(ex, r):
    q = D(ex, r).fields[0].v
    if not q['items']:
        return ERR(Opaque('Empty'))
    return OK(q['items'].pop(0))


@nat('Receiver::recv_timeout')
def receiver_recv_timeout(ex, r, d):
    q = D(ex, r).fields[0].v
    if not q['items']:
        return ERR(Opaque('Timeout'))
    return OK(q['items'].pop(0))


# ====================================================================== threads (registered, run by the harness / scheduler)
@nat('Builder::new')
def builder_new(ex): return Adt('ThreadBuilder', 0, [None])


@nat('Builder::name')
def builder_name(ex, b, name):
    b.fields[0] = name
    return b


@nat('Builder::spawn', 'spawn', 'thread::spawn')
def builder_spawn(ex, *a):
    f = a[-1]
    name = a[0].fields[0] if len(a) == 2 else None
    ex.spawned.append({'closure': f, 'name': D(ex, name).s if name is not None and isinstance(D(ex, name), StrV) else None, 'done': False})
    h = Adt('JoinHandle', 0, [len(ex.spawned) - 1])
    return OK(h) if len(a) == 2 else h


@nat('JoinHandle::join')
def join_handle_join(ex, h):
    t = ex.spawned[h.fields[0]]
    if not t['done']:
        run_spawned(ex, h.fields[0])
    return OK(())


def run_spawned(ex, i):
    t = ex.spawned[i]
    if t['done']:
        return
    t['done'] = True
    old = ex.thread
    oldheld = ex.held
    ex.thread = t['name'] or ('thread%d' % i)
    ex.held = []
    try:
        ex.call_value(t['closure'], [])
    finally:
        ex.thread = old
        ex.held = oldheld


@nat('vnd_run_spawned')
def vnd_run_spawned(ex, i):
    if i < len(ex.spawned):
        try:
            run_spawned(ex, i)
        except Blocked:
            pass
    return ()


@nat('vnd_spawned_count')
def vnd_spawned_count(ex): return len(ex.spawned)


@nat('vnd_thread')
def vnd_thread(ex, role):
    """the following calls are made by thread role `role` (lock-order analysis, C17); a thread starts holding nothing"""
    ex.thread = 'T%d' % role
    ex.held = []
    return ()


@nat('<datamodel_factories as Deref>::deref')
def datamodel_factories_deref(ex, r):
    """the lazy_static registry of datamodel factories: null and rfsm-expression (the feature set of the harness build)"""
    if 'dmf' not in ex.env:
        m = MapV()
        m.items.append([StrV('null'), Adt('Box', 0, [Cell(Adt('NullDatamodelFactory', 0, []))])])
        m.items.append([StrV('rfsm-expression'), Adt('Box', 0, [Cell(Adt('RFsmExpressionDatamodelFactory', 0, []))])])
        ex.env['dmf'] = Cell(Adt('Arc', 0, [Cell(MutexV(Cell(m), 'F1'))]))
    return Ref(ex.env['dmf'])


@nat('thread::sleep', 'sleep')
def thread_sleep(ex, d): return ()


@nat('thread::current')
def thread_current(ex): return Adt('Thread', 0, [ex.thread])


# ====================================================================== timer crate (virtual timer) and clocks
@nat('Timer::new')
def timer_new(ex): return Adt('Timer', 0, [Cell({'pending': []})])


@nat('TimeDelta::milliseconds', 'Duration::milliseconds', 'TimeDelta::try_milliseconds')
def chrono_ms(ex, ms): return Adt('ChronoDuration', 0, [ms])


@nat('Timer::schedule_with_delay')
def timer_schedule_with_delay(ex, r, delay, cb):
    t = D(ex, r).fields[0].v
    entry = {'delay_ms': delay.fields[0], 'cb': cb, 'alive': True, 'fired': 0, 'seq': len(t['pending'])}
    t['pending'].append(entry)
    ex.env.setdefault('timers', []).append(entry)
    return Adt('TimerGuard', 0, [Cell(entry)])


@nat('Guard::ignore')
def guard_ignore(ex, g): return ()


@nat('vnd_timer_pending')
def vnd_timer_pending(ex):
    return len([e for e in ex.env.get('timers', []) if e['alive'] and not e['fired']])


@nat('vnd_timer_fire')
def vnd_timer_fire(ex, i):
    """fire the i-th scheduled entry (in scheduling order) if its guard is still alive and it has not fired; returns whether it fired"""
    ts = ex.env.get('timers', [])
    if i >= len(ts):
        return False
    e = ts[i]
    if not e['alive'] or e['fired']:
        return False
    e['fired'] += 1
    old, oldheld = ex.thread, ex.held
    ex.thread, ex.held = 'timer', []
    try:
        ex.call_value(e['cb'], [])
    finally:
        ex.thread, ex.held = old, oldheld
    return True


@nat('vnd_timer_delay')
def vnd_timer_delay(ex, i):
    ts = ex.env.get('timers', [])
    return ts[i]['delay_ms'] if i < len(ts) else 0


@nat('vnd_timer_alive')
def vnd_timer_alive(ex, i):
    ts = ex.env.get('timers', [])
    return bool(ts[i]['alive']) if i < len(ts) else False


@nat('vnd_timer_count')
def vnd_timer_count(ex): return len(ex.env.get('timers', []))


@nat('SystemTime::now', 'Instant::now')
def time_now(ex):
    prev = ex.env.get('clock')
    if ex.concrete_inputs is not None:
        t = (prev or 0) + 1
    else:
        t = ex.fresh('u64', 'clock')
        ex.solver.add(z3.ULT(t, 1 << 62))
        if prev is not None:
            ex.solver.add(z3.UGE(t, prev))
    ex.env['clock'] = t
    return Adt('SystemTime', 0, [t])


@nat('SystemTime::duration_since', 'Instant::duration_since')
def time_duration_since(ex, a, b):
    x, y = D(ex, a).fields[0], D(ex, b).fields[0] if isinstance(D(ex, b), Adt) else 0
    if is_sym(x) or is_sym(y):
        return OK(Adt('Duration', 0, [z3.simplify(bv(x, 64) - bv(y, 64))]))
    return OK(Adt('Duration', 0, [x - y]))


@nat('SystemTime::elapsed', 'Instant::elapsed')
def time_elapsed(ex, a):
    now = time_now(ex)
    return time_duration_since(ex, now, a)


@nat('const time::UNIX_EPOCH', 'const SystemTime::UNIX_EPOCH')
def unix_epoch(ex): return Adt('SystemTime', 0, [0])


@nat('Duration::as_millis')
def duration_as_millis(ex, r):
    v = D(ex, r).fields[0]
    return z3.ZeroExt(64, v) if is_sym(v) else v


@nat('Duration::as_secs')
def duration_as_secs(ex, r):
    v = D(ex, r).fields[0]
    return z3.UDiv(v, 1000) if is_sym(v) else v // 1000


@nat('Duration::from_millis')
def duration_from_millis(ex, v): return Adt('Duration', 0, [v])


@nat('Duration::from_secs')
def duration_from_secs(ex, v): return Adt('Duration', 0, [v * 1000])


# ====================================================================== byte sources / sinks (byteorder + std::io on harness-owned buffers)
def _sink(ex, w):
    return D(ex, w)


def sink_write(ex, w, items):
    """one `Write::write` call: returns the number of bytes accepted, or None for an I/O failure.
    A sink type defined in Rust (harness fault-injection sink) is run through its interpreted `Write::write` impl."""
    s_ = _sink(ex, w)
    if isinstance(s_, VecV):
        s_.items.extend(items)
        return len(items)
    if isinstance(s_, Adt):
        impl = ex.prog.traitimpl.get((s_.name, 'Write', 'write'))
        if impl is None:
            raise Unsupported('write to %s (no Write impl in the dumps)' % s_.name)
        r = ex.run(impl, [ex.base_ref(w) if isinstance(w, Ref) else Ref(Cell(s_)), Ref(Cell(VecV(list(items))))])
        if r.variant != 0:
            return None
        k = r.fields[0]
        if is_sym(k):
            k = ex.concretize(k, 0, len(items) + 1)
        return k
    if isinstance(s_, SliceV):
        n = seq_len(ex, s_)
        if is_sym(n):
            raise Unsupported('write into symbolic-length slice')
        k = min(n, len(items))
        for i in range(k):
            s_.vec.items[s_.lo + i] = items[i]
        r = ex.base_ref(w)
        ex.write(r, SliceV(s_.vec, s_.lo + k, s_.hi))
        return k
    raise Unsupported('write to %r' % (s_,))


def io_err(kind):
    return Adt('IoError', 0, [kind])


def _bytes_of(ex, b):
    v = D(ex, b)
    if isinstance(v, SliceV):
        if is_sym(v.hi) or is_sym(v.lo):
            raise Unsupported('symbolic-length write buffer')
        return v.vec.items[v.lo:v.hi]
    if isinstance(v, VecV):
        return v.items
    if isinstance(v, StrV):
        from .natives_str import str_bytes
        return str_bytes(ex, v)
    raise Unsupported('bytes of %r' % (v,))


@nat('<* as WriteBytesExt>::write_u8', '<Vec as WriteBytesExt>::write_u8')
def write_u8(ex, w, b):
    k = sink_write(ex, w, [b])
    if k is None:
        return ERR(io_err('Other'))
    if k == 0:
        return ERR(io_err('WriteZero'))
    return OK(())


@nat('<* as Write>::write', '<Vec as Write>::write')
def io_write(ex, w, buf):
    k = sink_write(ex, w, list(_bytes_of(ex, buf)))
    if k is None:
        return ERR(io_err('Other'))
    return OK(k)


@nat('<* as Write>::write_all', '<Vec as Write>::write_all')
def io_write_all(ex, w, buf):
    items = list(_bytes_of(ex, buf))
    while items:
        k = sink_write(ex, w, items)
        if k is None:
            return ERR(io_err('Other'))
        if k == 0:
            return ERR(io_err('WriteZero'))
        items = items[k:]
    return OK(())


@nat('<* as Write>::flush', '<Vec as Write>::flush')
def io_flush(ex, w): return OK(())


def _source(ex, rr):
    """a byte source is a `&[u8]` stored in the reader (Ref to a cell holding a SliceV) or a harness VSource"""
    r = ex.base_ref(rr)
    v = ex.read(r)
    return r, v


@nat('<* as ReadBytesExt>::read_u8')
def read_u8(ex, rr):
    holder = rr
    cur = ex.read(holder)
    # holder is `&mut &[u8]`: cur is the inner reference
    if isinstance(cur, Ref):
        sl = ex.read(cur)
    else:
        sl = cur
    if isinstance(sl, VecV):
        sl = SliceV(sl, 0, len(sl.items))
    if not isinstance(sl, SliceV):
        raise Unsupported('read_u8 from %r' % (sl,))
    empty = simp_bool(z3.UGE(bv(sl.lo, 64), bv(sl.hi, 64))) if (is_sym(sl.hi) or is_sym(sl.lo)) else sl.lo >= sl.hi
    if ex.branch(empty):
        return ERR(io_err('UnexpectedEof'))
    if sl.lo >= len(sl.vec.items):
        raise Unsupported('source model shorter than symbolic length')
    b = sl.vec.items[sl.lo]
    ex.write(holder, Ref(Cell(SliceV(sl.vec, sl.lo + 1, sl.hi))))
    return OK(b)


@nat('<* as Read>::read_exact')
def read_exact(ex, rr, buf):
    holder = rr
    cur = ex.read(holder)
    sl = ex.read(cur) if isinstance(cur, Ref) else cur
    if isinstance(sl, VecV):
        sl = SliceV(sl, 0, len(sl.items))
    dst = D(ex, buf)
    n = seq_len(ex, dst)
    if is_sym(n):
        raise Unsupported('read_exact into symbolic-length buffer')
    if is_sym(sl.hi) or is_sym(sl.lo):
        enough = simp_bool(z3.ULE(bv(sl.lo, 64) + n, bv(sl.hi, 64)))
    else:
        enough = sl.lo + n <= sl.hi
    if not ex.branch(enough):
        # std consumes what is there and reports UnexpectedEof
        ex.write(holder, Ref(Cell(SliceV(sl.vec, sl.hi, sl.hi))))
        return ERR(io_err('UnexpectedEof'))
    for i in range(n):
        x = sl.vec.items[sl.lo + i]
        if isinstance(dst, SliceV):
            dst.vec.items[dst.lo + i] = x
        else:
            dst.items[i] = x
    ex.write(holder, Ref(Cell(SliceV(sl.vec, sl.lo + n, sl.hi))))
    return OK(())


@nat('<* as Read>::read')
def io_read(ex, rr, buf):
    holder = rr
    cur = ex.read(holder)
    sl = ex.read(cur) if isinstance(cur, Ref) else cur
    dst = D(ex, buf)
    n = seq_len(ex, dst)
    if is_sym(sl.hi) or is_sym(n):
        raise Unsupported('symbolic Read::read')
    k = min(n, sl.hi - sl.lo)
    for i in range(k):
        if isinstance(dst, SliceV):
            dst.vec.items[dst.lo + i] = sl.vec.items[sl.lo + i]
        else:
            dst.items[i] = sl.vec.items[sl.lo + i]
    ex.write(holder, Ref(Cell(SliceV(sl.vec, sl.lo + k, sl.hi))))
    return OK(k)


@nat('io::Error::kind', 'Error::kind')
def io_error_kind(ex, r):
    e = D(ex, r)
    from .prog import STD_ENUMS
    return Adt('ErrorKind', STD_ENUMS['ErrorKind'].index(e.fields[0]), [])


@nat('Error::new', 'io::Error::new', 'Error::other')
def io_error_new(ex, *a): return io_err('Other')


# ====================================================================== Any downcasts (ToAny)
@nat('tuple::downcast_ref', 'tuple::downcast_mut', '<dyn Any>::downcast_ref', '<dyn Any>::downcast_mut', 'Any::downcast_ref', 'Any::downcast_mut', want_callee=True)
def any_downcast(ex, callee, r):
    g = generic_of(callee) or ''
    from .prog import head
    if re.match(r'^[A-Z]\w?$', g):
        g2 = ex.generic_arg(g)
        if g2 is None:
            raise Unsupported('cannot resolve generic parameter %s for downcast' % g)
        g = g2
    want = head(g)
    rr = ex.base_ref(r)
    v = ex.read(rr)
    have = ex.prog.rtype(ex, v)
    if isinstance(v, Adt) and v.name in ('Box',):
        rr = Ref(v.fields[0])
    if have == want:
        return some(rr)
    return NONE()


# ====================================================================== things that cannot be encoded: fail loudly
def _unsup(name):
    def f(ex, *a):
        raise Unsupported('environment function outside the model list: ' + name)
    return f


for _k in ['File::open', 'File::create', 'Path::exists', 'Path::new', 'Path::join', 'Path::parent', 'ureq::get', 'Url::parse', 'Reader::from_str', 'args', 'env::args',
           'split_paths', 'BufReader::new', '<File as Read>::read_to_string', 'Request::call']:
    REG.setdefault(_k, _unsup(_k))


@nat('slice::binary_search')
def slice_binary_search(ex, r, x):
    """core::slice::binary_search on unsigned integers.  For unsorted input the result is unspecified by the documentation, so the model
    follows the algorithm of core (size-halving loop, one final comparison); the differential run against the native build validates it."""
    import z3
    from .natives import seq_items, vec_of
    items = [D(ex, it) for it in seq_items(ex, vec_of(ex, r))]
    key = D(ex, x)

    def cmp(a):      # element vs key: -1 Less, 0 Equal, 1 Greater
        if isinstance(a, int) and isinstance(key, int):
            return (a > key) - (a < key)
        w = a.size() if not isinstance(a, int) else key.size()
        az = a if not isinstance(a, int) else z3.BitVecVal(a, w)
        kz = key if not isinstance(key, int) else z3.BitVecVal(key, w)
        if ex.branch(az == kz):
            return 0
        return -1 if ex.branch(z3.ULT(az, kz)) else 1
    size = len(items)
    if size == 0:
        return ERR(0)
    base = 0
    while size > 1:
        half = size // 2
        mid = base + half
        if cmp(items[mid]) != 1:
            base = mid
        size -= half
    c = cmp(items[base])
    return OK(base) if c == 0 else ERR(base + (1 if c == -1 else 0))


@nat('<* as Iterator>::find', '<Iter as Iterator>::find')
def iter_find(ex, r, f):
    """Iterator::find: the predicate receives a reference to the item"""
    from .natives import iter_next
    while True:
        o = iter_next(ex, r)
        if o.variant == 0:
            return NONE()
        if ex.branch(ex.call_value(f, [Ref(Cell(o.fields[0]))])):
            return some(o.fields[0])


def _i64_cmp(op):
    def f(ex, a, b):
        import z3
        from .execu import bv, to_signed
        x, y = D(ex, a), D(ex, b)
        if isinstance(x, int) and isinstance(y, int):
            xs, ys = to_signed(x, 64), to_signed(y, 64)
            return {'lt': xs < ys, 'le': xs <= ys, 'gt': xs > ys, 'ge': xs >= ys}[op]
        xz, yz = bv(x, 64), bv(y, 64)
        return {'lt': xz < yz, 'le': xz <= yz, 'gt': xz > yz, 'ge': xz >= yz}[op]      # z3 '<' on bit-vectors is signed
    return f


for _op in ('lt', 'le', 'gt', 'ge'):
    REG['<i64 as PartialOrd>::' + _op] = _i64_cmp(_op)


@nat('<* as ReadBytesExt>::read_uint')
def read_uint_be(ex, rr, nbytes):
    """byteorder::ReadBytesExt::read_uint::<BigEndian>(nbytes): nbytes (1..=8) bytes, most significant first; panics for other counts"""
    n = D(ex, nbytes)
    if is_sym(n):
        n = ex.concretize_or_above(n, 9)
    if n < 1 or n > 8:
        raise Panic('byteorder read_uint: nbytes out of range (%d)' % n)
    holder = rr
    cur = ex.read(holder)
    sl = ex.read(cur) if isinstance(cur, Ref) else cur
    if isinstance(sl, VecV):
        sl = SliceV(sl, 0, len(sl.items))
    if is_sym(sl.hi) or is_sym(sl.lo):
        enough = simp_bool(z3.ULE(bv(sl.lo, 64) + n, bv(sl.hi, 64)))
    else:
        enough = sl.lo + n <= sl.hi
    if not ex.branch(enough):
        ex.write(holder, Ref(Cell(SliceV(sl.vec, sl.hi, sl.hi))))
        return ERR(io_err('UnexpectedEof'))
    val = 0
    for i in range(n):
        b = sl.vec.items[sl.lo + i]
        if is_sym(b) or is_sym(val):
            val = (bv(val, 64) << 8) | z3.ZeroExt(56, bv(b, 8))
        else:
            val = (val << 8) | b
    ex.write(holder, Ref(Cell(SliceV(sl.vec, sl.lo + n, sl.hi))))
    return OK(val)


@nat('<Range as Iterator>::step_by', '<* as Iterator>::step_by')
def range_step_by(ex, it, step):
    """StepBy over an integer range with concrete bounds: materialised"""
    r = D(ex, it)
    k = D(ex, step)
    if not (isinstance(r, Adt) and r.name == 'Range') or is_sym(k):
        raise Unsupported('step_by on %r' % (r,))
    lo, hi = D(ex, r.fields[0]), D(ex, r.fields[1])
    if is_sym(lo):
        lo = ex.concretize_or_above(lo, 129)
    if is_sym(hi):
        hi = ex.concretize_or_above(hi, 129)
    if k == 0:
        raise Panic('step_by(0)')
    return Adt('ListIter', 0, [list(range(lo, hi, k)), 0])


@nat('<* as Iterator>::rev', '<Iter as Iterator>::rev', '<Chars as Iterator>::rev')
def iter_rev_any(ex, it):
    """Iterator::rev; a materialised list iterator is reversed in place of wrapping it"""
    if isinstance(it, Adt) and it.name == 'ListIter':
        return Adt('ListIter', 0, [list(reversed(it.fields[0][it.fields[1]:])), 0])
    return Adt('Rev', 0, [it])


@nat('Timer::schedule_with_delay')
def timer_schedule_with_delay2(ex, r, delay, cb):
    """timer::Timer::schedule_with_delay computes `now + delay`; chrono panics when the date overflows (year > 262142).  The model
    panics for delays of 9e18 ms and more (certainly beyond the range); between the true limit (about 8.2e15 ms) and 9e18 ms it does
    not panic, which is an under-approximation of the crash region, stated in the evidence of C12/C16."""
    ms = delay.fields[0]
    LIMIT = 9_000_000_000_000_000_000
    if is_sym(ms):
        over = ex.branch(z3.And(bv(ms, 64) >= LIMIT, bv(ms, 64) > 0))        # signed comparison on the i64 value
    else:
        over = to_signed(ms, 64) >= LIMIT
    if over:
        raise Panic('`DateTime + TimeDelta` overflowed (timer::Timer::schedule_with_delay)')
    return timer_schedule_with_delay(ex, r, delay, cb)
