"""Parallel exhaustive path exploration of one harness entry point; aggregation of obligations, violations, coverage."""
import os, sys, time, collections, traceback, multiprocessing, concurrent.futures
import z3
from .values import *
from .execu import Exec
from .natives import install, model_inputs
from .prog import Program

sys.setrecursionlimit(20000)

_PROG = None
_CFG = None


def load_program(dumps):
    P = Program(dumps)
    install(P)
    return P


def run_one(prog, entry, decisions, cfg):
    """execute one path; returns a plain-dict summary (picklable)"""
    ex = Exec(prog, decisions, concrete_inputs=cfg.get('concrete'), step_budget=cfg.get('step_budget', 3_000_000))
    ex.env.update(cfg.get('env', {}))
    fn = prog.free.get(entry)
    if fn is None:
        return {'outcome': 'unsupported', 'msg': 'entry %s not found' % entry, 'new': [], 'decisions': decisions}
    out = {'decisions': None, 'msg': ''}
    t0 = time.time()
    try:
        ex.run(fn, [])
        out['outcome'] = 'ok'
    except Infeasible:
        out['outcome'] = 'infeasible'
    except Panic as p:
        out['outcome'] = 'panic'
        out['msg'] = str(p)[:300]
        _abnormal(ex, 'panic', str(p)[:300])
    except Hang as p:
        out['outcome'] = 'hang'
        out['msg'] = str(p)[:300]
        _abnormal(ex, 'hang', str(p)[:300])
    except Blocked as p:
        out['outcome'] = 'blocked'
        out['msg'] = str(p)[:300]
    except Unsupported as e:
        out['outcome'] = 'unsupported'
        out['msg'] = str(e)[:600] + ' | MIR stack: ' + ' < '.join(ex.errstack[:6])
    except RecursionError:
        out['outcome'] = 'unsupported'
        out['msg'] = 'python recursion limit'
    except Exception as e:
        out['outcome'] = 'unsupported'
        out['msg'] = 'engine exception: ' + ''.join(traceback.format_exception_only(type(e), e))[:300] + ' | ' + traceback.format_exc()[-500:] + ' | MIR stack: ' + ' < '.join(ex.errstack)
    out['decisions'] = list(ex.decisions)
    out['new'] = ex.new
    out['steps'] = ex.steps
    out['queries'] = ex.queries
    out['solver_s'] = ex.solver_s
    out['wall_s'] = time.time() - t0
    out['violations'] = ex.violations
    out['known_hits'] = ex.known_hits
    out['checked'] = dict(ex.checked)
    out['covered'] = sorted(ex.covered)
    out['calls'] = dict(ex.calls) if cfg.get('collect_calls', True) else {}
    out['natives'] = dict(ex.natives_used)
    out['lock_log'] = ex.lock_log if cfg.get('collect_locks') else []
    out['n_inputs'] = len(ex.inputs)
    out['obs'] = [(t, (v if not is_sym(v) else str(v))) for t, v in ex.obs]
    if cfg.get('sample_inputs') and out['outcome'] in ('ok', 'blocked') and ex.concrete_inputs is None:
        try:
            if ex.solver.check() == z3.sat:
                out['sample'] = model_inputs(ex, ex.solver.model())
        except Exception:
            pass
    return out


def _abnormal(ex, kind, msg):
    """a panic / hang outcome: violation unless its inputs lie in a declared known-finding region"""
    try:
        scopes = ex.kf_scopes
        notk = [z3.Not(k) for _, k in scopes]
        m = ex.model_for(*notk) if notk else ex.model_for()
        if m is not None:
            ex.violations.append({'check': kind, 'kf': None, 'inputs': model_inputs(ex, m), 'kind': kind, 'msg': msg})
        for kf, k in scopes:
            m = ex.model_for(k)
            if m is not None:
                ex.known_hits.append({'check': kind, 'kf': kf, 'inputs': model_inputs(ex, m), 'kind': kind, 'msg': msg})
    except Unsupported as e:
        ex.violations.append({'check': kind, 'kf': None, 'inputs': None, 'kind': kind, 'msg': msg + ' (no model: %s)' % e})


def _worker_init():
    # die with the parent; cap memory
    try:
        import ctypes, signal, resource
        ctypes.CDLL('libc.so.6').prctl(1, signal.SIGKILL)
        resource.setrlimit(resource.RLIMIT_AS, (10 << 30, 10 << 30))
    except Exception:
        pass


class _PathTimeout(Exception):
    pass


def _alarm(sig, frm):
    raise _PathTimeout()


def _worker(decisions):
    import signal
    signal.signal(signal.SIGALRM, _alarm)
    signal.alarm(int(_CFG.get('path_timeout', 600)))
    try:
        return run_one(_PROG, _CFG['entry'], decisions, _CFG)
    except _PathTimeout:
        return {'outcome': 'unsupported', 'msg': 'per-path wall timeout', 'new': [], 'decisions': decisions}
    finally:
        signal.alarm(0)


class Result:
    def __init__(s, entry):
        s.entry = entry
        s.paths = 0
        s.outcomes = collections.Counter()
        s.steps = s.queries = 0
        s.solver_s = s.interp_s = 0.0
        s.violations = []
        s.known_hits = []
        s.checked = collections.Counter()
        s.covered = set()
        s.calls = collections.Counter()
        s.natives = collections.Counter()
        s.unsupported = collections.Counter()
        s.panics = collections.Counter()
        s.samples = []
        s.lock_logs = []
        s.wall_s = 0.0
        s.truncated = False
        s.obs = []

    def add(s, r):
        o = r['outcome']
        if o == 'infeasible':
            s.outcomes['infeasible'] += 1
            return
        s.paths += 1
        s.outcomes[o] += 1
        s.steps += r.get('steps', 0)
        s.queries += r.get('queries', 0)
        s.solver_s += r.get('solver_s', 0)
        s.interp_s += r.get('wall_s', 0)
        for v in r.get('violations', []):
            v['decisions'] = r['decisions']
            s.violations.append(v)
        for v in r.get('known_hits', []):
            s.known_hits.append(v)
        s.checked.update(r.get('checked', {}))
        s.covered.update(r.get('covered', []))
        s.calls.update(r.get('calls', {}))
        s.natives.update(r.get('natives', {}))
        if o == 'unsupported':
            s.unsupported[r['msg']] += 1
        if o in ('panic', 'hang'):
            s.panics[r['msg'][:120]] += 1
        if 'sample' in r and len(s.samples) < 5:
            s.samples.append({'decisions': r['decisions'][:40], 'inputs': r['sample'], 'outcome': o})
        if r.get('lock_log'):
            s.lock_logs.append(r['lock_log'])
        if r.get('obs'):
            s.obs = r['obs']

    @property
    def conclusive(s):
        return not s.unsupported and not s.truncated


def explore(prog, entry, workers=None, max_paths=None, time_cap=None, cfg=None, progress=None):
    """exhaustive exploration of all feasible paths of harness `entry`"""
    global _PROG, _CFG
    cfg = dict(cfg or {})
    cfg['entry'] = entry
    _PROG, _CFG = prog, cfg
    res = Result(entry)
    t0 = time.time()
    workers = workers or min(16, os.cpu_count() or 4)
    if cfg.get('concrete') is not None or workers == 1:
        work = [[]]
        while work:
            d = work.pop()
            r = run_one(prog, entry, d, cfg)
            res.add(r)
            work.extend(r['new'])
            if max_paths and res.paths >= max_paths or (time_cap and time.time() - t0 > time_cap):
                res.truncated = bool(work)
                break
        res.wall_s = time.time() - t0
        return res
    # first path inline: many harnesses have one path, and it warms the function cache shared by fork
    r = run_one(prog, entry, [], cfg)
    res.add(r)
    work = list(r['new'])
    if work:
        ctx = multiprocessing.get_context('fork')
        with concurrent.futures.ProcessPoolExecutor(max_workers=workers, mp_context=ctx, initializer=_worker_init) as pool:
            pending = set()
            while work or pending:
                while work and len(pending) < workers * 3:
                    pending.add(pool.submit(_worker, work.pop()))
                done, pending = concurrent.futures.wait(pending, return_when=concurrent.futures.FIRST_COMPLETED)
                for f in done:
                    r = f.result()
                    res.add(r)
                    work.extend(r['new'])
                if progress and res.paths % 200 == 0:
                    progress(res)
                if (max_paths and res.paths >= max_paths) or (time_cap and time.time() - t0 > time_cap):
                    res.truncated = bool(work or pending)
                    for f in pending:
                        f.cancel()
                    break
    res.wall_s = time.time() - t0
    return res
