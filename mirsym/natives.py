"""Environment models: the closed list of std / third-party functions that are modelled natively (trusted base of engine M).
Every model follows the documented contract of the function it replaces; a call outside this list is `Unsupported`."""
import re, math
import z3
from .values import *
from .execu import bv, simp_bool, seq_len, to_signed, zbool
from .mirparse import W, SIGNED

REG = {}


def nat(*keys, want_callee=False):
    def d(f):
        f.want_callee = want_callee
        for k in keys:
            REG[k] = f
        return f
    return d


def install(P):
    P.natives.update(REG)
    for k, f in REG.items():
        if not hasattr(f, 'model_name'):
            try:
                f.model_name = k
            except AttributeError:
                pass


def D(ex, v):
    return ex.deref_all(v)


def ident(ex, x, *a):
    return x


def generic_of(callee):
    """last turbofish argument list of a callee text, e.g. new_display::<u32> -> 'u32'"""
    m = re.search(r'::<([^<>]*(?:<[^<>]*>)?[^<>]*)>$', callee)
    return m.group(1) if m else None


# ====================================================================== nondeterminism API (harness <-> engine)
def _next_input(ex, tag, ty, mk):
    if ex.concrete_inputs is not None:
        if len(ex.inputs) >= len(ex.concrete_inputs):
            raise Unsupported('concrete input list exhausted')
        v = ex.concrete_inputs[len(ex.inputs)]
        ex.inputs.append((tag, ty, v))
        return v
    v = mk()
    ex.inputs.append((tag, ty, v))
    return v


@nat('vnd_u8')
def vnd_u8(ex, tag): return _next_input(ex, tag, 'u8', lambda: ex.fresh('u8', 'u8_%s' % tag))


@nat('vnd_u16')
def vnd_u16(ex, tag): return _next_input(ex, tag, 'u16', lambda: ex.fresh('u16', 'u16_%s' % tag))


@nat('vnd_u32')
def vnd_u32(ex, tag): return _next_input(ex, tag, 'u32', lambda: ex.fresh('u32', 'u32_%s' % tag))


@nat('vnd_u64')
def vnd_u64(ex, tag): return _next_input(ex, tag, 'u64', lambda: ex.fresh('u64', 'u64_%s' % tag))


@nat('vnd_i64')
def vnd_i64(ex, tag): return _next_input(ex, tag, 'i64', lambda: ex.fresh('i64', 'i64_%s' % tag))


@nat('vnd_usize')
def vnd_usize(ex, tag): return _next_input(ex, tag, 'usize', lambda: ex.fresh('usize', 'us_%s' % tag))


@nat('vnd_bool')
def vnd_bool(ex, tag):
    v = _next_input(ex, tag, 'bool', lambda: ex.fresh('bool', 'b_%s' % tag))
    return bool(v) if not is_sym(v) else v


@nat('vnd_range')
def vnd_range(ex, lo, hi, tag):
    def mk():
        v = ex.fresh('u32', 'r_%s' % tag)
        ex.solver.add(z3.ULE(lo, v), z3.ULE(v, hi))
        return v
    v = _next_input(ex, tag, 'u32', mk)
    if not is_sym(v) and not (lo <= v <= hi):
        raise Infeasible()
    return v


@nat('vnd_char')
def vnd_char(ex, tag):
    def mk():
        v = ex.fresh('char', 'c_%s' % tag)
        ex.solver.add(z3.ULT(v, 0x110000), z3.Or(z3.ULT(v, 0xD800), z3.UGT(v, 0xDFFF)))
        return v
    return _next_input(ex, tag, 'char', mk)


@nat('vnd_f64')
def vnd_f64(ex, tag):
    if ex.concrete_inputs is None:
        raise Unsupported('engine M has no symbolic f64 (use Kani for float kernels)')
    return _next_input(ex, tag, 'f64', None)


@nat('vnd_assume')
def vnd_assume(ex, c):
    ex.assume(c)
    return ()


def model_inputs(ex, m):
    out = []
    for tag, ty, v in ex.inputs:
        if is_sym(v):
            r = m.eval(v, model_completion=True)
            if z3.is_bool(r):
                val = z3.is_true(r)
            else:
                val = r.as_long()
        else:
            val = v
        out.append({'tag': tag, 'type': ty, 'value': val})
    return out


def _violation(ex, cid, kf, cond_neg_extra):
    m = ex.model_for(*cond_neg_extra)
    if m is None:
        return False
    ex.violations.append({'check': cid, 'kf': kf, 'inputs': model_inputs(ex, m), 'kind': 'check'})
    return True


@nat('vnd_check')
def vnd_check(ex, cid, c):
    ex.checked[cid] += 1
    c = simp_bool(c)
    if c is True:
        return ()
    neg = z3.BoolVal(True) if c is False else z3.Not(c)
    _violation(ex, cid, None, [neg])
    return ()


@nat('vnd_check_kf')
def vnd_check_kf(ex, cid, c, kf, kcond):
    """obligation `c` with a declared known-finding region `kcond` (finding id `kf`):
       outside the region a failure is a violation; inside it is reported as known-finding witness"""
    ex.checked[cid] += 1
    c = simp_bool(c)
    if c is True:
        return ()
    neg = z3.BoolVal(True) if c is False else z3.Not(c)
    k = zbool(simp_bool(kcond))
    _violation(ex, cid, None, [neg, z3.Not(k)])
    m = ex.model_for(neg, k)
    if m is not None:
        ex.known_hits.append({'check': cid, 'kf': kf, 'inputs': model_inputs(ex, m), 'kind': 'check'})
    return ()


@nat('vnd_kf_scope')
def vnd_kf_scope(ex, kf, kcond):
    """declares: from here on a panic/hang outcome whose inputs satisfy kcond is known finding `kf`"""
    ex.kf_scopes.append((kf, zbool(simp_bool(kcond))))
    return ()


@nat('vnd_kf_scope_end')
def vnd_kf_scope_end(ex):
    ex.kf_scopes.clear()
    return ()


@nat('vnd_cover')
def vnd_cover(ex, cid):
    ex.covered.add(cid)
    return ()


@nat('vnd_obs')
def vnd_obs(ex, tag, v):
    ex.obs.append((tag, v))
    return ()


@nat('vnd_is_replay')
def vnd_is_replay(ex):
    return False


# ====================================================================== plumbing
for _k in ['<Vec as Deref>::deref', '<Vec as DerefMut>::deref_mut', '<String as Deref>::deref', '<String as DerefMut>::deref_mut',
           '<* as Borrow>::borrow', '<* as BorrowMut>::borrow_mut', '<* as AsRef>::as_ref', '<* as AsMut>::as_mut', 'Vec::as_slice', 'String::as_str', 'Vec::as_mut_slice',
           '<* as From>::from', '<* as Into>::into', 'must_use', '<Iter as IntoIterator>::into_iter', '<IntoIter as IntoIterator>::into_iter',
           '<Enumerate as IntoIterator>::into_iter', '<Range as IntoIterator>::into_iter', '<Values as IntoIterator>::into_iter',
           '<Chars as IntoIterator>::into_iter', '<MapIter as IntoIterator>::into_iter', 'String::as_mut_str', 'PathBuf::as_path', '<PathBuf as Deref>::deref',
           'Cow::into_owned', 'hint::black_box', '<Rev as IntoIterator>::into_iter', 'String::into_boxed_str', 'str::into_string', 'String::as_bytes', 'str::as_bytes_view']:
    REG[_k] = ident


@nat('<Arc as Deref>::deref', '<Box as Deref>::deref', '<Box as DerefMut>::deref_mut', '<Box as AsRef>::as_ref', '<Box as AsMut>::as_mut', '<Rc as Deref>::deref')
def arc_deref(ex, r):
    a = D(ex, r)
    return Ref(a.fields[0])


@nat('Arc::new')
def arc_new(ex, v): return Adt('Arc', 0, [Cell(v)])


@nat('Box::new')
def box_new(ex, v): return Adt('Box', 0, [Cell(v)])


@nat('<Arc as Clone>::clone', '<Sender as Clone>::clone', '<Rc as Clone>::clone')
def arc_clone(ex, r):
    a = D(ex, r)
    return Adt(a.name, a.variant, list(a.fields))


@nat('<Arc as Default>::default')
def arc_default(ex):
    raise Unsupported('Arc::default')


@nat('Arc::ptr_eq')
def arc_ptr_eq(ex, a, b): return D(ex, a).fields[0] is D(ex, b).fields[0]


@nat('ptr::eq')
def ptr_eq(ex, a, b):
    return isinstance(a, Ref) and isinstance(b, Ref) and a.cell is b.cell and a.path == b.path


@nat('mem::take')
def mem_take(ex, r):
    old = ex.read(r)
    ex.write(r, default_like(ex, old))
    return old


@nat('mem::replace')
def mem_replace(ex, r, v):
    old = ex.read(r)
    ex.write(r, v)
    return old


@nat('mem::swap')
def mem_swap(ex, a, b):
    x, y = ex.read(a), ex.read(b)
    ex.write(a, y)
    ex.write(b, x)
    return ()


@nat('mem::drop')
def mem_drop(ex, v):
    ex.drop_value(v)
    return ()


@nat('<Box as Drop>::drop', '<Vec as Drop>::drop', '<* as Drop>::drop')
def drop_in_place(ex, r):
    ex.drop_value(D(ex, r))
    return ()


@nat('mem::forget')
def mem_forget(ex, v): return ()


def default_like(ex, old):
    if isinstance(old, VecV): return VecV([])
    if isinstance(old, StrV): return StrV('')
    if isinstance(old, MapV): return MapV()
    if isinstance(old, Adt) and old.name == 'Option': return NONE()
    if isinstance(old, bool): return False
    if isinstance(old, int) or is_sym(old): return 0
    raise Unsupported('mem::take of %r' % (old,))


# ---- Default
@nat('<Vec as Default>::default', 'Vec::new', 'VecDeque::new', '<VecDeque as Default>::default', 'HashSet::new', '<HashSet as Default>::default')
def vec_new(ex): return VecV([])


@nat('Vec::with_capacity', 'VecDeque::with_capacity')
def vec_with_cap(ex, n): return VecV([])


@nat('<String as Default>::default', 'String::new')
def string_new(ex): return StrV('')


@nat('String::with_capacity')
def string_with_cap(ex, n): return StrV('')


@nat('<HashMap as Default>::default', 'HashMap::new')
def map_new(ex): return MapV()


@nat('HashMap::with_capacity')
def map_with_cap(ex, n): return MapV()


@nat('<Option as Default>::default')
def opt_default(ex): return NONE()


@nat('<bool as Default>::default')
def bool_default(ex): return False


@nat('<u8 as Default>::default', '<u16 as Default>::default', '<u32 as Default>::default', '<u64 as Default>::default', '<usize as Default>::default', '<i64 as Default>::default', '<i32 as Default>::default')
def int_default(ex): return 0


@nat('<f64 as Default>::default')
def f64_default(ex): return 0.0


# ====================================================================== Clone / PartialEq (structural, dispatching to interpreted impls)
def clone_value(ex, v):
    """Clone::clone of a value (not a reference to it)"""
    if isinstance(v, Adt):
        if v.name == 'Box':
            return Adt('Box', 0, [Cell(clone_value(ex, v.fields[0].v))])
        if v.name in SHARED_ADTS:
            return Adt(v.name, v.variant, list(v.fields))
        impl = ex.prog.traitimpl.get((v.name, 'Clone', 'clone'))
        if impl is not None:
            return ex.run(impl, [Ref(Cell(v))])
        if v.name in ('Option', 'Result', 'Ordering', 'Range', 'ControlFlow', 'RangeInclusive'):
            return Adt(v.name, v.variant, [clone_value(ex, x) for x in v.fields])
        # dyn-clone style: Box<dyn Expression> has get_copy, not Clone; plain structural copy for foreign structs
        return Adt(v.name, v.variant, [clone_value(ex, x) for x in v.fields])
    if isinstance(v, VecV):
        return VecV([clone_value(ex, x) for x in v.items])
    if isinstance(v, SliceV):
        return VecV([clone_value(ex, x) for x in v.vec.items[v.lo:v.hi]])
    if isinstance(v, list):
        return [clone_value(ex, x) for x in v]
    if isinstance(v, StrV):
        return StrV(v.chars)
    if isinstance(v, MapV):
        m = MapV()
        m.items = [[clone_value(ex, k), clone_value(ex, x)] for k, x in v.items]
        return m
    if isinstance(v, Closure):
        return Closure(v.ty, [clone_value(ex, x) for x in v.ups])
    return v     # ints, bools, floats, refs (Copy), FnItem, Opaque


@nat('<* as Clone>::clone', '<String as Clone>::clone', '<Vec as Clone>::clone', '<Option as Clone>::clone', '<HashMap as Clone>::clone',
     '<Box as Clone>::clone', '<bool as Clone>::clone', '<u32 as Clone>::clone', '<u8 as Clone>::clone', '<usize as Clone>::clone',
     '<i64 as Clone>::clone', '<f64 as Clone>::clone', '<u64 as Clone>::clone', '<PathBuf as Clone>::clone', '<Result as Clone>::clone', '<char as Clone>::clone')
def clone_ref(ex, r):
    v = ex.read(r) if isinstance(r, Ref) else r
    return clone_value(ex, v)


@nat('<String as Clone>::clone_from', '<PathBuf as Clone>::clone_from', '<* as Clone>::clone_from')
def clone_from(ex, dst, src):
    ex.write(dst, clone_value(ex, ex.read(src)))
    return ()


@nat('<* as ToOwned>::clone_into', '<Data as ToOwned>::clone_into')
def clone_into(ex, src, dst):
    ex.write(dst, clone_value(ex, D(ex, src)))
    return ()


@nat('<str as ToOwned>::to_owned', '<Path as ToOwned>::to_owned', '<PathBuf as ToOwned>::to_owned', 'String::from', '<String as From>::from', 'str::to_string', 'str::to_owned', 'Path::to_path_buf')
def str_to_owned(ex, r): return StrV(D(ex, r).chars)


@nat('<* as ToOwned>::to_owned')
def to_owned(ex, r): return clone_value(ex, D(ex, r))


def eq_values(ex, a, b):
    """PartialEq::eq on two values (references are followed); returns bool or z3 Bool"""
    a, b = D(ex, a), D(ex, b)
    if isinstance(a, StrV) and isinstance(b, StrV):
        return str_eq(ex, a, b)
    if is_sym(a) or is_sym(b):
        if isinstance(a, bool) or isinstance(b, bool) or (is_sym(a) and z3.is_bool(a)):
            return simp_bool(zbool(a) == zbool(b))
        w = a.size() if is_sym(a) else b.size()
        return simp_bool(bv(a, w) == bv(b, w))
    if isinstance(a, float) or isinstance(b, float):
        return a == b
    if isinstance(a, (int, bool)):
        return a == b
    if isinstance(a, Adt):
        if not isinstance(b, Adt):
            raise Unsupported('eq mismatch %r vs %r' % (a, b))
        impl = ex.prog.traitimpl.get((a.name, 'PartialEq', 'eq'))
        if impl is not None:
            return ex.run(impl, [Ref(Cell(a)), Ref(Cell(b))])
        if a.name in ('Box',):
            return eq_values(ex, a.fields[0].v, b.fields[0].v)
        if a.name in ('Option', 'Result', 'Ordering', 'ControlFlow'):
            if is_sym(a.variant) or is_sym(b.variant):
                raise Unsupported('eq on symbolic variant')
            if a.variant != b.variant:
                return False
            return and_all(ex, [eq_values(ex, x, y) for x, y in zip(a.fields, b.fields)])
        raise Unsupported('PartialEq on %s' % a.name)
    if isinstance(a, (VecV, SliceV)) and isinstance(b, (VecV, SliceV)):
        xa, xb = seq_items(ex, a), seq_items(ex, b)
        if len(xa) != len(xb):
            return False
        return and_all(ex, [eq_values(ex, x, y) for x, y in zip(xa, xb)])
    if isinstance(a, list) and isinstance(b, list):
        return and_all(ex, [eq_values(ex, x, y) for x, y in zip(a, b)])
    if a == () and b == ():
        return True
    raise Unsupported('eq on %r' % (a,))


def and_all(ex, cs):
    out = []
    for c in cs:
        if c is False:
            return False
        if c is True:
            continue
        out.append(c)
    if not out:
        return True
    return simp_bool(z3.And(out)) if len(out) > 1 else out[0]


def neg(c):
    return simp_bool(z3.Not(c)) if is_sym(c) else (not c)


def seq_items(ex, v):
    if isinstance(v, VecV):
        return v.items
    if isinstance(v, SliceV):
        if is_sym(v.hi) or is_sym(v.lo):
            raise Unsupported('items of symbolic-length slice')
        return v.vec.items[v.lo:v.hi]
    raise Unsupported('items of %s' % type(v).__name__)


@nat('<* as PartialEq>::eq', '<String as PartialEq>::eq', '<str as PartialEq>::eq', '<Option as PartialEq>::eq', '<Vec as PartialEq>::eq',
     '<bool as PartialEq>::eq', '<char as PartialEq>::eq', '<f64 as PartialEq>::eq', '<i64 as PartialEq>::eq', '<u32 as PartialEq>::eq',
     '<u8 as PartialEq>::eq', '<usize as PartialEq>::eq', 'str::eq', 'String::eq', '<slice as PartialEq>::eq', '<u64 as PartialEq>::eq', '<Box as PartialEq>::eq')
def eq_native(ex, a, b): return eq_values(ex, a, b)


@nat('<* as PartialEq>::ne', '<String as PartialEq>::ne', '<str as PartialEq>::ne', '<f64 as PartialEq>::ne', '<i64 as PartialEq>::ne', '<Option as PartialEq>::ne', '<u32 as PartialEq>::ne')
def ne_native(ex, a, b): return neg(eq_values(ex, a, b))


# ====================================================================== Option / Result
@nat('Result::unwrap', 'Result::expect')
def res_unwrap(ex, r, *a):
    if r.variant != 0:
        raise Panic('called `Result::unwrap()` on an `Err` value')
    return r.fields[0]


@nat('Option::unwrap', 'Option::expect')
def opt_unwrap(ex, o, *a):
    if o.variant == 0:
        raise Panic('called `Option::unwrap()` on a `None` value')
    return o.fields[0]


@nat('Result::unwrap_err')
def res_unwrap_err(ex, r):
    if r.variant != 1:
        raise Panic('unwrap_err on Ok')
    return r.fields[0]


@nat('Option::is_some')
def opt_is_some(ex, r): return D(ex, r).variant == 1


@nat('Option::is_none')
def opt_is_none(ex, r): return D(ex, r).variant == 0


@nat('Result::is_ok')
def res_is_ok(ex, r): return D(ex, r).variant == 0


@nat('Result::is_err')
def res_is_err(ex, r): return D(ex, r).variant == 1


@nat('Result::ok')
def res_ok(ex, r): return some(r.fields[0]) if r.variant == 0 else NONE()


@nat('Result::err')
def res_err(ex, r): return some(r.fields[0]) if r.variant == 1 else NONE()


@nat('Option::map')
def opt_map(ex, o, f): return NONE() if o.variant == 0 else some(ex.call_value(f, [o.fields[0]]))


@nat('Result::map')
def res_map(ex, r, f): return OK(ex.call_value(f, [r.fields[0]])) if r.variant == 0 else r


@nat('Result::map_err')
def res_map_err(ex, r, f): return ERR(ex.call_value(f, [r.fields[0]])) if r.variant == 1 else r


@nat('Option::and_then')
def opt_and_then(ex, o, f): return NONE() if o.variant == 0 else ex.call_value(f, [o.fields[0]])


@nat('Option::unwrap_or', 'Result::unwrap_or')
def unwrap_or(ex, o, d):
    good = 1 if o.name == 'Option' else 0
    return o.fields[0] if o.variant == good else d


@nat('Option::unwrap_or_else')
def opt_unwrap_or_else(ex, o, f): return o.fields[0] if o.variant == 1 else ex.call_value(f, [])


@nat('Result::unwrap_or_else')
def res_unwrap_or_else(ex, r, f): return r.fields[0] if r.variant == 0 else ex.call_value(f, [r.fields[0]])


@nat('Option::unwrap_or_default', want_callee=True)
def opt_unwrap_or_default(ex, callee, o):
    if o.variant == 1:
        return o.fields[0]
    m = re.search(r'Option::<(.*)>::unwrap_or_default', callee)
    t = m.group(1) if m else ''
    from .prog import head
    h = head(t)
    if h == 'String': return StrV('')
    if h == 'Vec': return VecV([])
    if h in W and h != 'bool': return 0
    if h == 'bool': return False
    raise Unsupported('unwrap_or_default for ' + t)


@nat('Option::insert')
def opt_insert(ex, r, v):
    ex.write(r, some(v))
    return Ref(r.cell, r.path + (0,))


@nat('Option::get_or_insert_with')
def opt_get_or_insert_with(ex, r, f):
    if ex.read(r).variant == 0:
        ex.write(r, some(ex.call_value(f, [])))
    return Ref(r.cell, r.path + (0,))


@nat('Option::as_ref', 'Option::as_mut', 'Option::as_deref', 'Option::as_deref_mut')
def opt_as_ref(ex, r):
    r = ex.base_ref(r)
    return NONE() if ex.read(r).variant == 0 else some(Ref(r.cell, r.path + (0,)))


@nat('Result::as_ref', 'Result::as_mut')
def res_as_ref(ex, r):
    r = ex.base_ref(r)
    v = ex.read(r)
    return Adt('Result', v.variant, [Ref(r.cell, r.path + (0,))])


@nat('Option::take')
def opt_take(ex, r):
    old = ex.read(r)
    ex.write(r, NONE())
    return old


@nat('Option::replace')
def opt_replace(ex, r, v):
    old = ex.read(r)
    ex.write(r, some(v))
    return old


@nat('bool::then_some')
def bool_then_some(ex, b, v): return some(v) if ex.branch(b) else NONE()


@nat('bool::then')
def bool_then(ex, b, f): return some(ex.call_value(f, [])) if ex.branch(b) else NONE()


@nat('Option::cloned', 'Option::copied')
def opt_cloned(ex, o): return NONE() if o.variant == 0 else some(clone_value(ex, D(ex, o.fields[0])))


@nat('Option::ok_or')
def opt_ok_or(ex, o, e): return OK(o.fields[0]) if o.variant == 1 else ERR(e)


@nat('Option::ok_or_else')
def opt_ok_or_else(ex, o, f): return OK(o.fields[0]) if o.variant == 1 else ERR(ex.call_value(f, []))


@nat('Option::is_some_and')
def opt_is_some_and(ex, o, f): return False if o.variant == 0 else ex.call_value(f, [o.fields[0]])


@nat('<Result as Try>::branch')
def res_branch(ex, r):
    if r.variant == 0:
        return Adt('ControlFlow', 0, [r.fields[0]])
    return Adt('ControlFlow', 1, [Adt('Result', 1, [r.fields[0]])])


@nat('<Result as FromResidual>::from_residual')
def res_from_residual(ex, r): return Adt('Result', 1, [r.fields[0]])


@nat('<Option as Try>::branch')
def opt_branch(ex, o):
    if o.variant == 1:
        return Adt('ControlFlow', 0, [o.fields[0]])
    return Adt('ControlFlow', 1, [NONE()])


@nat('<Option as FromResidual>::from_residual')
def opt_from_residual(ex, r): return NONE()


# ====================================================================== Vec / slice / VecDeque / HashSet
def vec_of(ex, r):
    v = D(ex, r)
    if isinstance(v, (VecV, SliceV)):
        return v
    raise Unsupported('expected a sequence, got %r' % (v,))


@nat('Vec::push', 'VecDeque::push_back')
def vec_push(ex, r, v):
    D(ex, r).items.append(v)
    return ()


@nat('Vec::len', 'slice::len', 'VecDeque::len', 'HashSet::len')
def vec_len(ex, r): return seq_len(ex, D(ex, r))


@nat('Vec::is_empty', 'slice::is_empty', 'VecDeque::is_empty', 'HashSet::is_empty')
def vec_is_empty(ex, r):
    n = seq_len(ex, D(ex, r))
    return simp_bool(n == 0) if is_sym(n) else n == 0


@nat('Vec::clear', 'VecDeque::clear', 'HashSet::clear')
def vec_clear(ex, r):
    D(ex, r).items.clear()
    return ()


@nat('slice::to_vec')
def slice_to_vec(ex, r): return clone_value(ex, vec_of(ex, r))


@nat('Vec::extend_from_slice')
def vec_extend_from_slice(ex, r, o):
    D(ex, r).items.extend(clone_value(ex, vec_of(ex, o)).items)
    return ()


@nat('Vec::append')
def vec_append(ex, r, o):
    src = D(ex, o)
    D(ex, r).items.extend(src.items)
    src.items = []
    return ()


@nat('<Vec as Extend>::extend')
def vec_extend(ex, r, it):
    dst = D(ex, r)
    for x in drain_iter(ex, it):
        dst.items.append(x)
    return ()


def elem_ref(ex, r, i):
    r = ex.base_ref(r)
    return Ref(r.cell, r.path + (i,))


@nat('slice::get', 'slice::get_mut', 'Vec::get', 'VecDeque::get')
def slice_get(ex, r, idx):
    if isinstance(idx, Adt):
        sl = index_range(ex, r, idx, panic=False)
        return NONE() if sl is None else some(sl)
    vec = vec_of(ex, r)
    n = seq_len(ex, vec)
    if is_sym(n):
        if not ex.branch(z3.ULT(bv(idx, 64), n)):
            return NONE()
        if is_sym(idx):
            raise Unsupported('symbolic index into symbolic-length slice')
        return some(elem_ref(ex, r, idx))
    i = ex.concretize_or_above(idx, n) if is_sym(idx) else idx
    if i >= n:
        return NONE()
    return some(elem_ref(ex, r, i))


def index_range(ex, r, rg, panic=True):
    v = D(ex, r)
    if isinstance(v, StrV):
        return str_index_range(ex, v, rg, panic)
    n = seq_len(ex, v)
    name = rg.name
    if name == 'RangeFull':
        lo, hi = 0, n
    elif name == 'RangeTo':
        lo, hi = 0, rg.fields[0]
    elif name == 'RangeFrom':
        lo, hi = rg.fields[0], n
    elif name == 'Range':
        lo, hi = rg.fields[0], rg.fields[1]
    elif name == 'RangeInclusive':
        lo, hi = rg.fields[0], rg.fields[1] + 1
    elif name == 'RangeToInclusive':
        lo, hi = 0, rg.fields[0] + 1
    else:
        raise Unsupported('range kind ' + name)
    okc = and_all(ex, [cmp_ule(lo, hi), cmp_ule(hi, n)])
    if not ex.branch(okc):
        if panic:
            raise Panic('range end index out of range for slice')
        return None
    if isinstance(v, SliceV):
        base, off = v.vec, v.lo
    else:
        base, off = v, 0
    if is_sym(lo):
        raise Unsupported('symbolic slice start')
    return Ref(Cell(SliceV(base, off + lo, (off + hi) if not (is_sym(off) or is_sym(hi)) else z3.simplify(bv(off, 64) + bv(hi, 64)))))


def cmp_ule(a, b):
    if is_sym(a) or is_sym(b):
        return simp_bool(z3.ULE(bv(a, 64), bv(b, 64)))
    return a <= b


@nat('<Vec as Index>::index', '<Vec as IndexMut>::index_mut', '<slice as Index>::index', '<slice as IndexMut>::index_mut', '<VecDeque as Index>::index', '<[T; N] as Index>::index', '<array as Index>::index', '<array as IndexMut>::index_mut')
def vec_index(ex, r, idx):
    if isinstance(idx, Adt):
        return index_range(ex, r, idx)
    o = slice_get(ex, r, idx)
    if o.variant == 0:
        raise Panic('index out of bounds')
    return o.fields[0]


@nat('slice::first', 'slice::first_mut', 'VecDeque::front')
def slice_first(ex, r): return slice_get(ex, r, 0)


@nat('slice::last', 'slice::last_mut', 'VecDeque::back')
def slice_last(ex, r):
    n = seq_len(ex, vec_of(ex, r))
    if n == 0:
        return NONE()
    return some(elem_ref(ex, r, n - 1))


@nat('Vec::remove')
def vec_remove(ex, r, i):
    v = D(ex, r)
    i = ex.concretize_or_above(i, len(v.items)) if is_sym(i) else i
    if i >= len(v.items):
        raise Panic('removal index out of bounds')
    return v.items.pop(i)


@nat('Vec::swap_remove')
def vec_swap_remove(ex, r, i):
    v = D(ex, r)
    if i >= len(v.items):
        raise Panic('swap_remove index out of bounds')
    x = v.items[i]
    v.items[i] = v.items[-1]
    v.items.pop()
    return x


@nat('Vec::insert')
def vec_insert(ex, r, i, x):
    v = D(ex, r)
    if i > len(v.items):
        raise Panic('insertion index out of bounds')
    v.items.insert(i, x)
    return ()


@nat('Vec::pop', 'VecDeque::pop_back')
def vec_pop(ex, r):
    v = D(ex, r)
    return some(v.items.pop()) if v.items else NONE()


@nat('VecDeque::pop_front')
def vd_pop_front(ex, r):
    q = D(ex, r).items
    return some(q.pop(0)) if q else NONE()


@nat('VecDeque::push_front')
def vd_push_front(ex, r, v):
    D(ex, r).items.insert(0, v)
    return ()


@nat('Vec::truncate')
def vec_truncate(ex, r, n):
    v = D(ex, r)
    del v.items[n:]
    return ()


@nat('slice::contains', 'HashSet::contains', 'VecDeque::contains')
def slice_contains(ex, r, x):
    for it in seq_items(ex, vec_of(ex, r)):
        if ex.branch(eq_values(ex, it, x)):
            return True
    return False


@nat('HashSet::insert')
def hashset_insert(ex, r, x):
    v = D(ex, r)
    for it in v.items:
        if ex.branch(eq_values(ex, it, x)):
            return False
    v.items.append(x)
    return True


@nat('HashSet::remove')
def hashset_remove(ex, r, x):
    v = D(ex, r)
    for i, it in enumerate(v.items):
        if ex.branch(eq_values(ex, it, x)):
            v.items.pop(i)
            return True
    return False


@nat('Vec::retain')
def vec_retain(ex, r, clo):
    vec = D(ex, r)
    base = ex.base_ref(r)
    keep = []
    for i, it in enumerate(list(vec.items)):
        if ex.branch(ex.call_value(clo, [Ref(base.cell, base.path + (i,))])):
            keep.append(it)
    vec.items[:] = keep
    return ()


def ordering_variant(ex, o):
    if isinstance(o, Adt):
        return o.variant
    raise Unsupported('ordering value %r' % (o,))


@nat('slice::sort_by', 'slice::sort_unstable_by')
def sort_by(ex, r, clo):
    """stable insertion sort calling the interpreted comparison closure (the comparator is code under test)"""
    vec = D(ex, r)
    items = seq_items(ex, vec) if isinstance(vec, VecV) else None
    if items is None:
        raise Unsupported('sort_by on slice view')
    for i in range(1, len(items)):
        j = i
        while j > 0:
            o = ex.call_value(clo, [Ref(Cell(items[j - 1])), Ref(Cell(items[j]))])
            if ordering_variant(ex, o) == 2:
                items[j - 1], items[j] = items[j], items[j - 1]
                j -= 1
            else:
                break
    return ()


@nat('slice::sort', 'slice::sort_unstable')
def sort_plain(ex, r):
    vec = D(ex, r)
    if any(is_sym(x) for x in vec.items):
        raise Unsupported('sort of symbolic values')
    if all(isinstance(x, StrV) for x in vec.items):
        vec.items.sort(key=lambda x: x.s.encode('utf-8'))
    else:
        vec.items.sort()
    return ()


@nat('slice::reverse')
def slice_reverse(ex, r):
    D(ex, r).items.reverse()
    return ()


@nat('slice::join', 'slice::concat')
def slice_join(ex, r, sep=None):
    items = seq_items(ex, vec_of(ex, r))
    out = []
    sp = D(ex, sep).chars if sep is not None else []
    for i, it in enumerate(items):
        if i:
            out.extend(sp)
        out.extend(D(ex, it).chars)
    return StrV(out)


@nat('<Vec as From>::from')
def vec_from(ex, v):
    d = D(ex, v)
    if isinstance(d, (VecV, SliceV)):
        return clone_value(ex, d) if isinstance(v, Ref) else d
    if isinstance(d, StrV):
        return VecV(str_bytes(ex, d))
    raise Unsupported('Vec::from %r' % (d,))


@nat('boxed::box_assume_init_into_vec_unsafe', 'slice::into_vec')
def box_into_vec(ex, b):
    v = D(ex, b)
    if isinstance(v, Adt) and v.name == 'Box':
        v = v.fields[0].v
    return v


@nat('Box::new_uninit')
def box_new_uninit(ex): return Adt('Box', 0, [Cell(UNINIT)])


@nat('MaybeUninit::write', 'Box::write')
def mu_write(ex, b, v):
    if isinstance(b, Adt) and b.name == 'Box':
        b.fields[0].v = v
        return b
    ex.write(b, v)
    return b


# ---- iterators
@nat('slice::iter', 'slice::iter_mut', 'Vec::iter', 'Vec::iter_mut', 'VecDeque::iter', 'HashSet::iter')
def slice_iter(ex, r):
    return Adt('Iter', 0, [ex.base_ref(r), 0])


@nat('<Vec as IntoIterator>::into_iter', '<slice as IntoIterator>::into_iter', '<* as IntoIterator>::into_iter', '<VecDeque as IntoIterator>::into_iter', '<HashSet as IntoIterator>::into_iter', '<array as IntoIterator>::into_iter')
def into_iter(ex, v):
    if isinstance(v, Ref):
        d = D(ex, v)
        if isinstance(d, MapV):
            return map_iter(ex, v)
        if isinstance(d, Adt) and d.name in ('Iter', 'IntoIter', 'MapIter', 'Enumerate', 'Range', 'Chars', 'MapAdapter', 'Rev', 'Skip', 'Take', 'TakeWhile', 'SkipWhile', 'Chain', 'FilterMap', 'ClonedAdapter', 'Peekable', 'Filter', 'Zip', 'ListIter'):
            return v
        return slice_iter(ex, v)
    if isinstance(v, MapV):
        return map_into_iter(ex, v)
    if isinstance(v, VecV):
        return Adt('IntoIter', 0, [v, 0])
    if isinstance(v, Adt):
        return v
    raise Unsupported('into_iter of %r' % (v,))


def iter_next(ex, r):
    it = D(ex, r)
    n = it.name
    if n == 'Iter':
        vec = ex.read(it.fields[0])
        i = it.fields[1]
        ln = seq_len(ex, vec)
        if is_sym(ln):
            raise Unsupported('iteration over symbolic-length slice')
        if i >= ln:
            return NONE()
        it.fields[1] = i + 1
        base = it.fields[0]
        return some(Ref(base.cell, base.path + (i,)))
    if n == 'IntoIter':
        vec = it.fields[0]
        i = it.fields[1]
        if i >= len(vec.items):
            return NONE()
        it.fields[1] = i + 1
        return some(vec.items[i])
    if n == 'MapIter':
        return mapiter_next(ex, it)
    if n == 'Enumerate':
        o = iter_next(ex, Ref(Cell(it.fields[0])))
        if o.variant == 0:
            return o
        k = it.fields[1]
        it.fields[1] = k + 1
        return some([k, o.fields[0]])
    if n == 'Range':
        lo, hi = it.fields[0], it.fields[1]
        if is_sym(lo) or is_sym(hi):
            w = lo.size() if is_sym(lo) else hi.size()
            more = ex.branch(z3.ULT(bv(lo, w), bv(hi, w)))
        else:
            more = lo < hi
        if not more:
            return NONE()
        it.fields[0] = lo + 1 if not is_sym(lo) else z3.simplify(lo + 1)
        return some(lo)
    if n == 'RangeInclusive':
        lo, hi = it.fields[0], it.fields[1]
        if is_sym(lo) or is_sym(hi):
            raise Unsupported('symbolic RangeInclusive')
        if len(it.fields) > 2 and it.fields[2]:
            return NONE()
        if lo > hi:
            return NONE()
        if lo == hi:
            it.fields.append(True) if len(it.fields) == 2 else None
            if len(it.fields) > 2:
                it.fields[2] = True
            return some(lo)
        it.fields[0] = lo + 1
        return some(lo)
    if n == 'Chars':
        s_, i = it.fields[0], it.fields[1]
        if i >= len(s_.chars):
            return NONE()
        it.fields[1] = i + 1
        c = s_.chars[i]
        if isinstance(c, SymPiece):
            raise Unsupported('chars() over formatted symbolic integer')
        return some(c)
    if n == 'MapAdapter':
        o = iter_next(ex, Ref(Cell(it.fields[0])))
        if o.variant == 0:
            return o
        return some(ex.call_value(it.fields[1], [o.fields[0]]))
    if n == 'Rev':
        inner = it.fields[0]
        if inner.name == 'Iter':
            vec = ex.read(inner.fields[0])
            if len(inner.fields) < 3:
                inner.fields.append(seq_len(ex, vec))
            if inner.fields[2] <= inner.fields[1]:
                return NONE()
            inner.fields[2] -= 1
            base = inner.fields[0]
            return some(Ref(base.cell, base.path + (inner.fields[2],)))
        if inner.name == 'Chars':
            s_ = inner.fields[0]
            if len(inner.fields) < 3:
                inner.fields.append(len(s_.chars))
            if inner.fields[2] <= inner.fields[1]:
                return NONE()
            inner.fields[2] -= 1
            return some(s_.chars[inner.fields[2]])
        raise Unsupported('rev of ' + inner.name)
    if n == 'Filter':
        while True:
            o = iter_next(ex, Ref(Cell(it.fields[0])))
            if o.variant == 0:
                return o
            if ex.branch(ex.call_value(it.fields[1], [Ref(Cell(o.fields[0]))])):
                return o
    if n == 'Zip':
        a = iter_next(ex, Ref(Cell(it.fields[0])))
        if a.variant == 0:
            return a
        b = iter_next(ex, Ref(Cell(it.fields[1])))
        if b.variant == 0:
            return b
        return some([a.fields[0], b.fields[0]])
    if n == 'Skip':
        while it.fields[1] > 0:
            it.fields[1] -= 1
            o = iter_next(ex, Ref(Cell(it.fields[0])))
            if o.variant == 0:
                it.fields[1] = 0
                return o
        return iter_next(ex, Ref(Cell(it.fields[0])))
    if n == 'Take':
        if it.fields[1] <= 0:
            return NONE()
        it.fields[1] -= 1
        return iter_next(ex, Ref(Cell(it.fields[0])))
    if n == 'TakeWhile':
        if it.fields[2]:
            return NONE()
        o = iter_next(ex, Ref(Cell(it.fields[0])))
        if o.variant == 0:
            return o
        if ex.branch(ex.call_value(it.fields[1], [Ref(Cell(o.fields[0]))])):
            return o
        it.fields[2] = True
        return NONE()
    if n == 'SkipWhile':
        while True:
            o = iter_next(ex, Ref(Cell(it.fields[0])))
            if o.variant == 0 or it.fields[2]:
                return o
            if not ex.branch(ex.call_value(it.fields[1], [Ref(Cell(o.fields[0]))])):
                it.fields[2] = True
                return o
    if n == 'Chain':
        if not it.fields[2]:
            o = iter_next(ex, Ref(Cell(it.fields[0])))
            if o.variant != 0:
                return o
            it.fields[2] = True
        return iter_next(ex, Ref(Cell(it.fields[1])))
    if n == 'FilterMap':
        while True:
            o = iter_next(ex, Ref(Cell(it.fields[0])))
            if o.variant == 0:
                return o
            r2 = ex.call_value(it.fields[1], [o.fields[0]])
            if r2.variant != 0:
                return r2
    if n == 'ClonedAdapter':
        o = iter_next(ex, Ref(Cell(it.fields[0])))
        if o.variant == 0:
            return o
        return some(clone_value(ex, D(ex, o.fields[0])))
    if n == 'Peekable':
        if it.fields[1] is not None:
            o = it.fields[1]
            it.fields[1] = None
            return o
        return iter_next(ex, Ref(Cell(it.fields[0])))
    if n == 'ListIter':     # pre-computed list of items
        if it.fields[1] >= len(it.fields[0]):
            return NONE()
        it.fields[1] += 1
        return some(it.fields[0][it.fields[1] - 1])
    raise Unsupported('Iterator::next on ' + n)


for _k in ['<Iter as Iterator>::next', '<IntoIter as Iterator>::next', '<MapIter as Iterator>::next', '<Enumerate as Iterator>::next', '<Range as Iterator>::next',
           '<Values as Iterator>::next', '<Chars as Iterator>::next', '<* as Iterator>::next', '<RangeInclusive as Iterator>::next', '<Map as Iterator>::next',
           '<Rev as Iterator>::next', '<Keys as Iterator>::next', '<IterMut as Iterator>::next', '<ValuesMut as Iterator>::next', '<SplitWhitespace as Iterator>::next',
           '<SplitAsciiWhitespace as Iterator>::next', '<Split as Iterator>::next', '<RSplit as Iterator>::next']:
    REG[_k] = iter_next


def drain_iter(ex, it):
    """consume an iterator value, yielding its items"""
    if isinstance(it, VecV):
        return list(it.items)
    if isinstance(it, MapV):
        it = map_into_iter(ex, it)
    if isinstance(it, Ref):
        d = D(ex, it)
        if isinstance(d, (VecV, SliceV)):
            it = slice_iter(ex, it)
        elif isinstance(d, MapV):
            it = map_iter(ex, it)
        else:
            it = d
    out = []
    cell = Ref(Cell(it))
    while True:
        o = iter_next(ex, cell)
        if o.variant == 0:
            return out
        out.append(o.fields[0])


@nat('<Iter as Iterator>::enumerate', '<IntoIter as Iterator>::enumerate', '<* as Iterator>::enumerate', '<Chars as Iterator>::enumerate')
def iter_enumerate(ex, it): return Adt('Enumerate', 0, [it, 0])


@nat('<* as Iterator>::map', '<Iter as Iterator>::map', '<SplitWhitespace as Iterator>::map', '<IntoIter as Iterator>::map', '<Chars as Iterator>::map')
def iter_map(ex, it, f): return Adt('MapAdapter', 0, [it, f])


@nat('<* as Iterator>::filter', '<Iter as Iterator>::filter', '<IntoIter as Iterator>::filter', '<Chars as Iterator>::filter')
def iter_filter(ex, it, f): return Adt('Filter', 0, [it, f])


@nat('<* as Iterator>::zip', '<Split as Iterator>::zip', '<Iter as Iterator>::zip', '<Chars as Iterator>::zip')
def iter_zip(ex, a, b):
    if isinstance(b, (VecV, Ref, MapV)):
        b = into_iter(ex, b)
    return Adt('Zip', 0, [a, b])


@nat('<* as Iterator>::rev', '<Iter as Iterator>::rev', '<Chars as Iterator>::rev')
def iter_rev(ex, it): return Adt('Rev', 0, [it])


def _usize_arg(ex, n, what):
    if is_sym(n):
        raise Unsupported('symbolic count in Iterator::' + what)
    return n


def _as_iter(ex, it):
    return into_iter(ex, it) if isinstance(it, (VecV, Ref, MapV)) else it


@nat('<* as Iterator>::skip')
def iter_skip(ex, it, n): return Adt('Skip', 0, [it, _usize_arg(ex, n, 'skip')])


@nat('<* as Iterator>::take')
def iter_take(ex, it, n): return Adt('Take', 0, [it, _usize_arg(ex, n, 'take')])


@nat('<* as Iterator>::take_while')
def iter_take_while(ex, it, f): return Adt('TakeWhile', 0, [it, f, False])


@nat('<* as Iterator>::skip_while')
def iter_skip_while(ex, it, f): return Adt('SkipWhile', 0, [it, f, False])


@nat('<* as Iterator>::chain')
def iter_chain(ex, a, b): return Adt('Chain', 0, [a, _as_iter(ex, b), False])


@nat('<* as Iterator>::filter_map')
def iter_filter_map(ex, it, f): return Adt('FilterMap', 0, [it, f])


@nat('<* as Iterator>::cloned', '<* as Iterator>::copied')
def iter_cloned(ex, it): return Adt('ClonedAdapter', 0, [it])


@nat('<* as Iterator>::peekable')
def iter_peekable(ex, it): return Adt('Peekable', 0, [it, None])


@nat('Peekable::peek')
def peekable_peek(ex, r):
    it = D(ex, r)
    if it.fields[1] is None:
        it.fields[1] = iter_next(ex, Ref(Cell(it.fields[0])))
    o = it.fields[1]
    return NONE() if o.variant == 0 else some(Ref(Cell(o.fields[0])))


@nat('<* as Iterator>::by_ref')
def iter_by_ref(ex, r): return r


@nat('<* as Iterator>::last')
def iter_last(ex, it):
    xs = drain_iter(ex, it)
    return some(xs[-1]) if xs else NONE()


@nat('<* as Iterator>::fold')
def iter_fold(ex, it, init, f):
    acc = init
    for x in drain_iter(ex, it):
        acc = ex.call_value(f, [acc, x])
    return acc


@nat('<* as Iterator>::find_map')
def iter_find_map(ex, r, f):
    while True:
        o = iter_next(ex, r)
        if o.variant == 0:
            return o
        r2 = ex.call_value(f, [o.fields[0]])
        if r2.variant != 0:
            return r2


@nat('<* as Iterator>::flatten')
def iter_flatten(ex, it):
    out = []
    for x in drain_iter(ex, it):
        x = D(ex, x) if isinstance(x, Ref) else x
        if isinstance(x, Adt) and x.name == 'Option':
            if x.variant != 0:
                out.append(x.fields[0])
        elif isinstance(x, Adt) and x.name == 'Result':
            if x.variant == 0:
                out.append(x.fields[0])
        else:
            out.extend(drain_iter(ex, x))
    return Adt('ListIter', 0, [out, 0])


@nat('<* as Iterator>::flat_map')
def iter_flat_map(ex, it, f):
    return iter_flatten(ex, Adt('ListIter', 0, [[ex.call_value(f, [x]) for x in drain_iter(ex, it)], 0]))


@nat('<* as Iterator>::unzip')
def iter_unzip(ex, it):
    xs = drain_iter(ex, it)
    return [VecV([x[0] for x in xs]), VecV([x[1] for x in xs])]


@nat('<* as Iterator>::collect', '<Map as Iterator>::collect', '<Iter as Iterator>::collect', '<IntoIter as Iterator>::collect', want_callee=True)
def iter_collect(ex, callee, it):
    items = drain_iter(ex, it)
    g = generic_of(callee) or ''
    from .prog import head
    h = head(g)
    if h == 'Vec' or h == 'VecDeque':
        return VecV(items)
    if h == 'String':
        out = []
        for x in items:
            x = D(ex, x)
            out.extend(x.chars if isinstance(x, StrV) else [x])
        return StrV(out)
    if h == 'HashMap':
        m = MapV()
        for k, v in items:
            map_insert_raw(ex, m, k, v)
        return m
    raise Unsupported('collect into ' + g)


@nat('<* as Iterator>::for_each', '<SplitAsciiWhitespace as Iterator>::for_each', '<Iter as Iterator>::for_each')
def iter_for_each(ex, it, f):
    for x in drain_iter(ex, it):
        ex.call_value(f, [x])
    return ()


@nat('<* as Iterator>::count', '<Chars as Iterator>::count')
def iter_count(ex, it): return len(drain_iter(ex, it))


@nat('<* as Iterator>::any', '<Iter as Iterator>::any')
def iter_any(ex, r, f):
    while True:
        o = iter_next(ex, r)
        if o.variant == 0:
            return False
        if ex.branch(ex.call_value(f, [o.fields[0]])):
            return True


@nat('<* as Iterator>::all', '<Iter as Iterator>::all')
def iter_all(ex, r, f):
    while True:
        o = iter_next(ex, r)
        if o.variant == 0:
            return True
        if not ex.branch(ex.call_value(f, [o.fields[0]])):
            return False


@nat('<* as Iterator>::position', '<Iter as Iterator>::position')
def iter_position(ex, r, f):
    i = 0
    while True:
        o = iter_next(ex, r)
        if o.variant == 0:
            return NONE()
        if ex.branch(ex.call_value(f, [o.fields[0]])):
            return some(i)
        i += 1


@nat('<* as Iterator>::nth', '<Chars as Iterator>::nth')
def iter_nth(ex, r, n):
    it = D(ex, r)
    if it.name == 'Chars':
        total = len(it.fields[0].chars) - it.fields[1]
        k = ex.concretize_or_above(n, total) if is_sym(n) else min(n, total)
        if k >= total:
            it.fields[1] = len(it.fields[0].chars)
            return NONE()
        it.fields[1] += k
        return iter_next(ex, r)
    if is_sym(n):
        raise Unsupported('symbolic nth')
    for _ in range(n):
        o = iter_next(ex, r)
        if o.variant == 0:
            return o
    return iter_next(ex, r)


# ====================================================================== HashMap (association list)
def map_find(ex, m, k):
    k = D(ex, k)
    for i, (kk, vv) in enumerate(m.items):
        if ex.branch(eq_values(ex, kk, k)):
            return i
    return None


def map_insert_raw(ex, m, k, v):
    i = map_find(ex, m, k)
    if i is None:
        m.items.append([k, v])
        m.order = None
        return NONE()
    old = m.items[i][1]
    m.items[i][1] = v
    return some(old)


@nat('HashMap::insert')
def map_insert(ex, r, k, v): return map_insert_raw(ex, D(ex, r), k, v)


@nat('HashMap::get', 'HashMap::get_mut')
def map_get(ex, r, k):
    m = D(ex, r)
    i = map_find(ex, m, k)
    if i is None:
        return NONE()
    return some(Ref(Cell(m.items[i]), (1,)))


@nat('HashMap::contains_key')
def map_contains_key(ex, r, k): return map_find(ex, D(ex, r), k) is not None


@nat('HashMap::remove')
def map_remove(ex, r, k):
    m = D(ex, r)
    i = map_find(ex, m, k)
    if i is None:
        return NONE()
    m.order = None
    return some(m.items.pop(i)[1])


@nat('HashMap::is_empty')
def map_is_empty(ex, r): return len(D(ex, r).items) == 0


@nat('HashMap::len')
def map_len(ex, r): return len(D(ex, r).items)


@nat('HashMap::clear')
def map_clear(ex, r):
    m = D(ex, r)
    m.items.clear()
    m.order = None
    return ()


def _map_order(ex, m):
    """iteration order of a hash map: an arbitrary (symbolic) permutation, fixed until the map changes structurally
    (std guarantees nothing about the order, but iterating an unmodified map twice yields the same order)"""
    n = len(m.items)
    if m.order is not None and len(m.order) == n:
        return list(m.order)
    remaining = list(range(n))
    order = []
    symbolic = ex.env.get('map_order', 'symbolic') == 'symbolic' and ex.concrete_inputs is None
    while remaining:
        if len(remaining) > 1 and symbolic:
            k = ex.fresh('u8', 'hashorder')
            ex.solver.add(z3.ULT(k, len(remaining)))
            pick = ex.concretize(k, 0, len(remaining))
        else:
            pick = 0
        order.append(remaining.pop(pick))
    m.order = order
    return list(order)


@nat('HashMap::iter', 'HashMap::iter_mut', '<HashMap as IntoIterator>::into_iter')
def map_iter(ex, r):
    if isinstance(r, MapV):
        return map_into_iter(ex, r)
    m = D(ex, r)
    return Adt('MapIter', 0, [m, _map_order(ex, m), 'pairs'])


def map_into_iter(ex, m):
    return Adt('MapIter', 0, [m, _map_order(ex, m), 'owned'])


@nat('HashMap::values', 'HashMap::values_mut')
def map_values(ex, r):
    m = D(ex, r)
    return Adt('MapIter', 0, [m, _map_order(ex, m), 'values'])


@nat('HashMap::keys')
def map_keys(ex, r):
    m = D(ex, r)
    return Adt('MapIter', 0, [m, _map_order(ex, m), 'keys'])


@nat('HashMap::into_values')
def map_into_values(ex, m): return Adt('MapIter', 0, [m, _map_order(ex, m), 'owned_values'])


def mapiter_next(ex, it):
    m, remaining, mode = it.fields
    if not remaining:
        return NONE()
    i = remaining.pop(0)
    pair = m.items[i]
    c = Cell(pair)
    if mode == 'pairs':
        return some([Ref(c, (0,)), Ref(c, (1,))])
    if mode == 'values':
        return some(Ref(c, (1,)))
    if mode == 'keys':
        return some(Ref(c, (0,)))
    if mode == 'owned':
        return some([pair[0], pair[1]])
    if mode == 'owned_values':
        return some(pair[1])
    raise Unsupported('map iter mode')


@nat('<HashMap as Extend>::extend')
def map_extend(ex, r, it):
    m = D(ex, r)
    for k, v in drain_iter(ex, it):
        map_insert_raw(ex, m, k, v)
    return ()


@nat('HashMap::entry')
def map_entry(ex, r, k):
    m = D(ex, r)
    i = map_find(ex, m, k)
    if i is not None:
        return Adt('Entry', 0, [Adt('OccupiedEntry', 0, [m, i, k])])
    return Adt('Entry', 1, [Adt('VacantEntry', 0, [m, k])])


@nat('OccupiedEntry::get', 'OccupiedEntry::get_mut', 'OccupiedEntry::into_mut')
def occ_get(ex, r):
    e = D(ex, r)
    return Ref(Cell(e.fields[0].items[e.fields[1]]), (1,))


@nat('OccupiedEntry::key')
def occ_key(ex, r):
    e = D(ex, r)
    return Ref(Cell(e.fields[0].items[e.fields[1]]), (0,))


@nat('OccupiedEntry::insert')
def occ_insert(ex, r, v):
    e = D(ex, r)
    old = e.fields[0].items[e.fields[1]][1]
    e.fields[0].items[e.fields[1]][1] = v
    return old


@nat('OccupiedEntry::remove')
def occ_remove(ex, e):
    e = D(ex, e)
    e.fields[0].order = None
    return e.fields[0].items.pop(e.fields[1])[1]


@nat('VacantEntry::insert')
def vac_insert(ex, e, v):
    e = D(ex, e)
    e.fields[0].order = None
    e.fields[0].items.append([e.fields[1], v])
    return Ref(Cell(e.fields[0].items[-1]), (1,))


@nat('Entry::or_insert')
def entry_or_insert(ex, e, v):
    if e.variant == 0:
        return occ_get(ex, e.fields[0])
    return vac_insert(ex, e.fields[0], v)


@nat('Entry::or_insert_with')
def entry_or_insert_with(ex, e, f):
    if e.variant == 0:
        return occ_get(ex, e.fields[0])
    return vac_insert(ex, e.fields[0], ex.call_value(f, []))


@nat('Entry::or_default')
def entry_or_default(ex, e):
    raise Unsupported('Entry::or_default')


from .natives_str import *      # noqa: E402,F401  (strings, formatting, numbers)
from .natives_sys import *      # noqa: E402,F401  (mutex, channels, threads, timers, io)
from . import natives_xml       # noqa: E402,F401  (quick-xml event source for the SCXML reader)
