"""Forking symbolic executor over the parsed MIR (re-execution with decision prefixes; z3 decides feasibility)."""
import re, math, collections
import z3
from .mirparse import W, SIGNED, parse_body
from .values import *

STEP_BUDGET = 3_000_000

_REF_RE = re.compile(r"^&(?:'\w+ )?(?:mut )?")
_PTR_RE = re.compile(r"^\*(?:const|mut) ")


def strip_ref(t):
    t2 = _REF_RE.sub('', t)
    if t2 == t:
        t2 = _PTR_RE.sub('', t)
    return t2


def to_signed(x, w):
    return x - (1 << w) if x >> (w - 1) else x


def bv(v, w):
    return v if is_sym(v) else z3.BitVecVal(v, w)


def zbool(v):
    return v if is_sym(v) else z3.BoolVal(bool(v))


def simp_bool(c):
    """z3 Bool -> True/False/expr"""
    if not is_sym(c):
        return bool(c)
    c = z3.simplify(c)
    if z3.is_true(c):
        return True
    if z3.is_false(c):
        return False
    return c


def _turbofish(callee):
    depth = 0
    i = len(callee) - 1
    while i >= 0:
        c = callee[i]
        if c == '>' and callee[i - 1] != '-':
            depth += 1
        elif c == '<':
            depth -= 1
            if depth == 0:
                break
        i -= 1
    from .mirparse import split_top
    return split_top(callee[i + 1:-1]) if callee[i - 2:i] == '::' else []


class Exec:
    def __init__(s, prog, decisions, concrete_inputs=None, step_budget=STEP_BUDGET):
        s.prog = prog
        s.decisions, s.pos, s.new = list(decisions), 0, []
        s.solver = z3.Solver()
        s.steps = 0
        s.step_budget = step_budget
        s.nsym = 0
        s.queries = 0
        s.solver_s = 0.0
        s.calls = collections.Counter()
        s.natives_used = collections.Counter()
        s.static_cells = {}
        # nondeterminism API state
        s.inputs = []            # [(tag, type, value-or-z3var)]
        s.concrete_inputs = concrete_inputs
        s.violations = []        # [(check_id, kf_id or None, model_inputs)]
        s.known_hits = []        # [(kf_id, check_id, model_inputs)]
        s.checked = collections.Counter()   # check_id -> times discharged
        s.covered = set()
        s.obs = []
        s.kf_scopes = []         # [(kf_id, cond)] active known-finding scopes for panic outcomes
        # threads / locks
        s.thread = 'main'
        s.lock_log = []          # (thread, held labels tuple, acquired label)
        s.held = []              # MutexV currently held by the running thread
        s.spawned = []
        s.env = {}               # free-form per-path environment used by natives (timers, clocks ...)
        s.depth = 0
        s.errstack = []
        s.targs = []

    # ------------------------------------------------------------------ solver / forking
    def check_sat(s, *extra):
        s.queries += 1
        import time
        t = time.time()
        if extra:
            s.solver.push()
            s.solver.add(*extra)
            r = s.solver.check()
            s.solver.pop()
        else:
            r = s.solver.check()
        s.solver_s += time.time() - t
        if r == z3.unknown:
            raise Unsupported('solver returned unknown')
        return r == z3.sat

    def model_for(s, *extra):
        s.queries += 1
        s.solver.push()
        s.solver.add(*extra)
        r = s.solver.check()
        m = s.solver.model() if r == z3.sat else None
        s.solver.pop()
        if r == z3.unknown:
            raise Unsupported('solver returned unknown')
        return m

    def choose(s, conds):
        """conds: list of True/False/z3 Bool, mutually exclusive and exhaustive under the path condition.
        Returns the index taken on this path; forks over the other feasible ones."""
        for i, c in enumerate(conds):
            if c is True:
                return i
        cands = [i for i, c in enumerate(conds) if c is not False]
        if not cands:
            raise Infeasible()
        if s.pos < len(s.decisions):
            d = s.decisions[s.pos]
        else:
            if len(cands) == 1:
                feas = cands if s.check_sat(conds[cands[0]]) else []
            else:
                feas = [i for i in cands if s.check_sat(conds[i])]
            if not feas:
                raise Infeasible()
            d = feas[0]
            for alt in feas[1:]:
                s.new.append(s.decisions[:s.pos] + [alt])
            s.decisions.append(d)
        s.pos += 1
        s.solver.add(conds[d])
        return d

    def branch(s, cond):
        c = simp_bool(cond)
        if c is True or c is False:
            return c
        return s.choose([c, z3.Not(c)]) == 0

    def concretize(s, v, lo, hi):
        """fork over the feasible concrete values of v in [lo, hi); value hi stands for 'anything >= hi' is NOT included"""
        if not is_sym(v):
            return v
        v2 = z3.simplify(v)
        if z3.is_bv_value(v2):
            return v2.as_long()
        conds = [simp_bool(v == k) for k in range(lo, hi)]
        i = s.choose(conds)
        return lo + i

    def concretize_or_above(s, v, n):
        """returns k in [0,n) if v == k, or n if v >= n (unsigned); forks"""
        if not is_sym(v):
            return min(v, n)
        v2 = z3.simplify(v)
        if z3.is_bv_value(v2):
            return min(v2.as_long(), n)
        conds = [simp_bool(v == k) for k in range(n)] + [simp_bool(z3.UGE(v, n))]
        return s.choose(conds)

    def fresh(s, sort, tag):
        s.nsym += 1
        name = '%s!%d' % (tag, s.nsym)
        if sort == 'bool':
            return z3.Bool(name)
        return z3.BitVec(name, W[sort])

    def assume(s, c):
        c = simp_bool(c)
        if c is True:
            return
        if c is False:
            raise Infeasible()
        s.solver.add(c)
        if not s.check_sat():
            raise Infeasible()

    # ------------------------------------------------------------------ memory
    def step_into(s, v, f):
        if isinstance(v, Adt):
            return v.fields[f]
        if isinstance(v, VecV):
            return v.items[f]
        if isinstance(v, list):
            return v[f]
        if isinstance(v, Closure):
            return v.ups[f]
        if isinstance(v, SliceV):
            return v.vec.items[v.lo + f]
        if isinstance(v, Cell):     # Box/Arc interior reached through a raw-parts projection
            return v.v if f == 'cell' else s.step_into(v.v, f)
        if isinstance(v, Ref):
            return s.step_into(s.read(v), f)
        if isinstance(v, MutexV):
            return s.step_into(v.cell.v, f)
        raise Unsupported('step_into %s .%r' % (type(v).__name__, f))

    def read(s, r):
        v = r.cell.v
        for f in r.path:
            v = s.step_into(v, f)
        return v

    def write(s, r, val):
        if not r.path:
            r.cell.v = val
            return
        v = r.cell.v
        if v is UNINIT and len(r.path) == 1 and isinstance(r.path[0], int):
            # aggregate (tuple) initialised field by field
            v = r.cell.v = []
        for f in r.path[:-1]:
            v = s.step_into(v, f)
        f = r.path[-1]
        if isinstance(v, list) and f >= len(v):
            v.extend([UNINIT] * (f + 1 - len(v)))
        while isinstance(v, Ref):
            v = s.read(v)
        if isinstance(v, Adt):
            v.fields[f] = val
        elif isinstance(v, VecV):
            v.items[f] = val
        elif isinstance(v, list):
            v[f] = val
        elif isinstance(v, SliceV):
            v.vec.items[v.lo + f] = val
        elif isinstance(v, Closure):
            v.ups[f] = val
        elif v is None or v is UNINIT:
            raise Unsupported('write into uninitialised aggregate')
        else:
            raise Unsupported('write into %s' % type(v).__name__)

    def deref(s, v):
        """value of a pointer-like -> Ref to pointee"""
        if isinstance(v, Ref):
            return v
        if isinstance(v, Adt) and v.name in ('Box', 'Arc', 'Rc'):
            return Ref(v.fields[0])
        if isinstance(v, Cell):
            return Ref(v)
        raise Unsupported('deref of %r' % (v,))

    def deref_all(s, v):
        while isinstance(v, Ref):
            v = s.read(v)
        return v

    def base_ref(s, r):
        """follow reference-to-reference chains: returns the Ref whose target is not itself a Ref"""
        while True:
            v = s.read(r)
            if isinstance(v, Ref):
                r = v
            else:
                return r

    # ------------------------------------------------------------------ drop
    def drop_value(s, v, depth=0):
        if isinstance(v, Adt):
            n = v.name
            if n == 'MutexGuard':
                s.unlock(v.fields[0])
            elif n == 'TimerGuard':
                v.fields[0].v['alive'] = False
            elif n == 'Timer':
                # dropping the timer (the session's Fsm) discards every entry that has not fired yet
                for e in v.fields[0].v['pending']:
                    e['alive'] = False
            elif n in ('Arc', 'Rc', 'Sender', 'Receiver'):
                return
            elif depth < 6:
                for f in v.fields:
                    s.drop_value(f, depth + 1)
        elif isinstance(v, (VecV,)) and depth < 6:
            for f in v.items:
                s.drop_value(f, depth + 1)
        elif isinstance(v, list) and depth < 6:
            for f in v:
                s.drop_value(f, depth + 1)
        elif isinstance(v, MapV) and depth < 6:
            for k, x in v.items:
                s.drop_value(x, depth + 1)
        elif isinstance(v, Cell) and depth < 6:
            s.drop_value(v.v, depth + 1)

    def lock(s, m):
        if m.holder is not None:
            if m.holder == s.thread:
                raise Hang('self-deadlock: thread %s locks %s which it already holds' % (s.thread, m.label or m.uid))
            raise Blocked('mutex held by other thread')
        s.lock_log.append((s.thread, tuple(x.label or ('m%d' % x.uid) for x in s.held), m.label or ('m%d' % m.uid)))
        m.holder = s.thread
        s.held.append(m)

    def unlock(s, m):
        m.holder = None
        if m in s.held:
            s.held.remove(m)

    # ------------------------------------------------------------------ calls
    def call(s, callee, args):
        s.calls[callee] += 1
        target = s.prog.resolve(callee, args, s)
        if callable(target):
            s.natives_used[getattr(target, 'model_name', callee)] += 1
            return target(s, *args)
        if callee.endswith('>') and '::<' in callee:
            # explicit turbofish on an interpreted generic function: remember the type arguments for its body
            ta = _turbofish(callee)
            if len(ta) == 1 and re.fullmatch(r'[A-Z]\w?', ta[0]) and s.targs and len(s.targs[-1]) == 1:
                # `inner::<T>(..)` inside a generic function: T is the caller's own (single) type parameter
                ta = list(s.targs[-1])
            s.targs.append(ta)
            try:
                return s.run(target, args)
            finally:
                s.targs.pop()
        return s.run(target, args)

    def generic_arg(s, name):
        """concrete type bound to a generic parameter name of the innermost interpreted generic function (positional for one parameter)"""
        for t in reversed(s.targs):
            if t:
                return t[0] if len(t) == 1 else None
        return None

    def call_value(s, f, args):
        """call a closure / fn item value with an argument list"""
        return s.prog.call_closure(s, f, args)

    def run(s, fn, args):
        code = fn.compiled
        if code is None:
            code = compile_fn(s.prog, fn)
        fr = [Cell(UNINIT) for _ in range(fn.nlocals)]
        for (p, _), a in zip(fn.params, args):
            fr[p].v = a
        s.depth += 1
        if s.depth > 400:
            raise Unsupported('recursion depth > 400 (stack exhaustion is outside the encoding)')
        bb = 0
        try:
            while True:
                stmts, term = code[bb]
                for st in stmts:
                    st(s, fr)
                s.steps += len(stmts) + 1
                if s.steps > s.step_budget:
                    if s.env.get('budget_is_hang'):
                        # harnesses whose property includes termination: a path that does not end within the budget is a
                        # suspected non-termination; the native replay (with a time limit) decides whether it is reported
                        raise Hang('step budget of %d MIR statements exceeded: non-termination suspected' % s.step_budget)
                    raise Unsupported('step budget exceeded')
                bb = term(s, fr)
                if bb is None:
                    return fr[0].v
        except Exception:
            # remember the interpreted call chain of the innermost failure (diagnostics only)
            if len(s.errstack) < 12:
                s.errstack.append('%s@bb%s' % (getattr(fn, 'name', '?'), bb))
            raise
        finally:
            s.depth -= 1


# ---------------------------------------------------------------------- compilation of MIR AST into closures
def ctx(fn, what):
    return ' @ %s: %s' % (fn.name, what)


def place_type(fn, p):
    k = p[0]
    if k == 'local':
        return fn.ltypes.get(p[1], '?')
    if k == 'field':
        return p[3]
    if k == 'deref':
        return strip_ref(place_type(fn, p[1]))
    if k in ('index', 'constindex'):
        t = place_type(fn, p[1])
        m = re.match(r'\[(.*?)(?:; \d+)?\]$', t)
        return m.group(1) if m else '?'
    return '?'


def operand_type(fn, o):
    if o[0] == 'const':
        c = o[1]
        if c[0] == 'int':
            return c[2]
        return c[0]
    return place_type(fn, o[1])


def compile_place(prog, fn, p):
    k = p[0]
    if k == 'local':
        n = p[1]
        return lambda ex, fr: Ref(fr[n])
    if k == 'deref':
        inner = p[1]
        if inner[0] == 'local':
            n = inner[1]

            def f(ex, fr):
                v = fr[n].v
                if v.__class__ is Ref:
                    return v
                return ex.deref(v)
            return f
        g = compile_place(prog, fn, inner)
        return lambda ex, fr: ex.deref(ex.read(g(ex, fr)))
    if k == 'field':
        g = compile_place(prog, fn, p[1])
        i = p[2]
        pty = place_type(fn, p[1])
        # Box<T> raw parts: ((_b.0: Unique<T>).0: NonNull<T>) ... identities on the box cell
        if re.match(r'(std::boxed::)?Box<', pty) or re.match(r'(std::ptr::|core::ptr::)?(Unique|NonNull)<', pty):
            return g
        # transparent wrappers used by the vec! lowering
        if re.match(r'(std::mem::|core::mem::)?(MaybeUninit|ManuallyDrop|MaybeDangling)<', pty):
            return g

        def f(ex, fr):
            r = g(ex, fr)
            return Ref(r.cell, r.path + (i,))
        return f
    if k == 'downcast':
        return compile_place(prog, fn, p[1])
    if k == 'index':
        g = compile_place(prog, fn, p[1])
        n = p[2]

        def f(ex, fr):
            r = g(ex, fr)
            i = fr[n].v
            vec = ex.deref_all(ex.read(r))
            ln = seq_len(ex, vec)
            if is_sym(i) or is_sym(ln):
                raise Unsupported('symbolic index place')
            if i >= ln:
                raise Panic('index out of bounds')
            return Ref(r.cell, r.path + (i,))

        def f2(ex, fr):
            r = g(ex, fr)
            i = fr[n].v
            vec = ex.read(r)
            while isinstance(vec, Ref):
                r = vec
                vec = ex.read(r)
            ln = seq_len(ex, vec)
            if is_sym(ln):
                # symbolic slice length (truncated source): index < len decided by the solver
                if not ex.branch(z3.ULT(bv(i, 64), ln)):
                    raise Panic('index out of bounds')
                if is_sym(i):
                    raise Unsupported('symbolic index into symbolic-length slice')
            else:
                if is_sym(i):
                    i = ex.concretize_or_above(i, ln)
                if i >= ln:
                    raise Panic('index out of bounds')
            return Ref(r.cell, r.path + (i,))
        return f2
    if k == 'constindex':
        g = compile_place(prog, fn, p[1])
        i = p[2]

        def f(ex, fr):
            r = g(ex, fr)
            return Ref(r.cell, r.path + (i,))
        return f
    raise Unsupported('place kind ' + k + ctx(fn, ''))


def seq_len(ex, v):
    if isinstance(v, VecV):
        return len(v.items)
    if isinstance(v, SliceV):
        if is_sym(v.hi) or is_sym(v.lo):
            return z3.simplify(bv(v.hi, 64) - bv(v.lo, 64))
        return v.hi - v.lo
    if isinstance(v, StrV):
        return ex.prog.str_byte_len(ex, v)
    if isinstance(v, list):
        return len(v)
    raise Unsupported('length of %s' % type(v).__name__)


def compile_const(prog, fn, c):
    k = c[0]
    if k == 'int':
        v = c[1] & ((1 << W[c[2]]) - 1)
        return lambda ex, fr: v
    if k == 'bool':
        v = c[1]
        return lambda ex, fr: v
    if k == 'unit':
        return lambda ex, fr: ()
    if k == 'str':
        t = c[1]
        return lambda ex, fr: Ref(Cell(StrV(t)))
    if k == 'f64':
        v = c[1]
        return lambda ex, fr: v
    if k == 'bytes':
        b = c[1]
        return lambda ex, fr: Ref(Cell(VecV(list(b))))
    name = c[1]
    return lambda ex, fr: ex.prog.const_value(ex, name, fn)


def compile_operand(prog, fn, o):
    k = o[0]
    if k == 'const':
        return compile_const(prog, fn, o[1])
    p = o[1]
    if p[0] == 'local':
        n = p[1]
        if k == 'move':
            return lambda ex, fr: fr[n].v

        def f(ex, fr):
            v = fr[n].v
            c = v.__class__
            if c is Adt or c is list or c is VecV:
                return deep_copy(v)
            return v
        return f
    g = compile_place(prog, fn, p)
    pty = place_type(fn, p)
    if re.match(r'(std::ptr::|core::ptr::)?(Unique|NonNull)<', pty) or pty.startswith(('*const ', '*mut ')):
        # raw parts of a Box (or any raw pointer): the pointer value is the box interior, never a copy of the pointee
        def fptr(ex, fr):
            v = ex.read(g(ex, fr))
            if v.__class__ is Adt and v.name in ('Box', 'Arc', 'Rc'):
                return Ref(v.fields[0])
            return v
        return fptr
    if k == 'move':
        return lambda ex, fr: ex.read(g(ex, fr))

    def f(ex, fr):
        v = ex.read(g(ex, fr))
        c = v.__class__
        if c is Adt or c is list or c is VecV:
            return deep_copy(v)
        return v
    return f


def int_binop(op, w, sg):
    mask = (1 << w) - 1

    def sv(x):
        return x - (1 << w) if sg and (x >> (w - 1)) else x

    def ovf(r):
        return (not (-(1 << (w - 1)) <= r < (1 << (w - 1)))) if sg else (r < 0 or r > mask)

    def shift_amt(b):
        return b

    if op == 'Eq':
        conc = lambda a, b: a == b; sym = lambda A, B: A == B
    elif op == 'Ne':
        conc = lambda a, b: a != b; sym = lambda A, B: A != B
    elif op == 'Lt':
        conc = lambda a, b: sv(a) < sv(b); sym = (lambda A, B: A < B) if sg else (lambda A, B: z3.ULT(A, B))
    elif op == 'Le':
        conc = lambda a, b: sv(a) <= sv(b); sym = (lambda A, B: A <= B) if sg else (lambda A, B: z3.ULE(A, B))
    elif op == 'Gt':
        conc = lambda a, b: sv(a) > sv(b); sym = (lambda A, B: A > B) if sg else (lambda A, B: z3.UGT(A, B))
    elif op == 'Ge':
        conc = lambda a, b: sv(a) >= sv(b); sym = (lambda A, B: A >= B) if sg else (lambda A, B: z3.UGE(A, B))
    elif op in ('Add', 'AddUnchecked'):
        conc = lambda a, b: (a + b) & mask; sym = lambda A, B: A + B
    elif op in ('Sub', 'SubUnchecked'):
        conc = lambda a, b: (a - b) & mask; sym = lambda A, B: A - B
    elif op in ('Mul', 'MulUnchecked'):
        conc = lambda a, b: (sv(a) * sv(b)) & mask; sym = lambda A, B: A * B
    elif op == 'BitAnd':
        conc = lambda a, b: a & b; sym = lambda A, B: A & B
    elif op == 'BitOr':
        conc = lambda a, b: a | b; sym = lambda A, B: A | B
    elif op == 'BitXor':
        conc = lambda a, b: a ^ b; sym = lambda A, B: A ^ B
    elif op in ('Shl', 'ShlUnchecked'):
        conc = lambda a, b: (a << (b & (w - 1))) & mask; sym = lambda A, B: A << (B & (w - 1))
    elif op in ('Shr', 'ShrUnchecked'):
        conc = lambda a, b: (sv(a) >> (b & (w - 1))) & mask
        sym = (lambda A, B: A >> (B & (w - 1))) if sg else (lambda A, B: z3.LShR(A, B & (w - 1)))
    elif op == 'Div':
        def conc(a, b):
            if b == 0:
                raise Panic('attempt to divide by zero')
            x, y = sv(a), sv(b)
            q = abs(x) // abs(y)
            return (q if (x < 0) == (y < 0) else -q) & mask
        sym = (lambda A, B: A / B) if sg else (lambda A, B: z3.UDiv(A, B))
    elif op == 'Rem':
        def conc(a, b):
            if b == 0:
                raise Panic('attempt to calculate the remainder with a divisor of zero')
            x, y = sv(a), sv(b)
            r = abs(x) % abs(y)
            return (r if x >= 0 else -r) & mask
        sym = (lambda A, B: z3.SRem(A, B)) if sg else (lambda A, B: z3.URem(A, B))
    elif op == 'AddWithOverflow':
        conc = lambda a, b: [(a + b) & mask, ovf(sv(a) + sv(b))]
        if sg:
            sym = lambda A, B: [A + B, z3.Or(z3.Not(z3.BVAddNoOverflow(A, B, True)), z3.Not(z3.BVAddNoUnderflow(A, B)))]
        else:
            sym = lambda A, B: [A + B, z3.Not(z3.BVAddNoOverflow(A, B, False))]
    elif op == 'SubWithOverflow':
        conc = lambda a, b: [(a - b) & mask, ovf(sv(a) - sv(b))]
        if sg:
            sym = lambda A, B: [A - B, z3.Or(z3.Not(z3.BVSubNoOverflow(A, B)), z3.Not(z3.BVSubNoUnderflow(A, B, True)))]
        else:
            sym = lambda A, B: [A - B, z3.ULT(A, B)]
    elif op == 'MulWithOverflow':
        conc = lambda a, b: [(sv(a) * sv(b)) & mask, ovf(sv(a) * sv(b))]
        if sg:
            sym = lambda A, B: [A * B, z3.Or(z3.Not(z3.BVMulNoOverflow(A, B, True)), z3.Not(z3.BVMulNoUnderflow(A, B)))]
        else:
            sym = lambda A, B: [A * B, z3.Not(z3.BVMulNoOverflow(A, B, False))]
    elif op == 'Cmp':
        def conc(a, b):
            x, y = sv(a), sv(b)
            return Adt('Ordering', 0 if x < y else (1 if x == y else 2), [])

        def sym(A, B):
            raise Unsupported('symbolic three-way Cmp')
    else:
        raise Unsupported('binop ' + op)

    shiftlike = op in ('Shl', 'Shr', 'ShlUnchecked', 'ShrUnchecked')

    def run(ex, a, b):
        if a.__class__ is int and b.__class__ is int:
            return conc(a, b)
        if a.__class__ is bool:
            a = int(a)
        if b.__class__ is bool:
            b = int(b)
        if not is_sym(a) and not is_sym(b):
            if isinstance(a, Ref) or isinstance(b, Ref):
                raise Unsupported('pointer arithmetic/comparison')
            return conc(a, b)
        A, B = bv(a, w), bv(b, w)
        if B.size() != A.size():
            if shiftlike:
                B = z3.ZeroExt(A.size() - B.size(), B) if B.size() < A.size() else z3.Extract(A.size() - 1, 0, B)
            else:
                raise Unsupported('width mismatch in %s' % op)
        if op in ('Div', 'Rem'):
            if ex.branch(B == 0):
                raise Panic('attempt to divide by zero / remainder with a divisor of zero')
            if sg and ex.branch(z3.And(A == (1 << (w - 1)), B == mask)):
                raise Panic('attempt to divide/rem with overflow')
        r = sym(A, B)
        if isinstance(r, list):
            return [z3.simplify(r[0]), simp_bool(r[1])]
        if z3.is_bool(r):
            return simp_bool(r)
        return z3.simplify(r)
    return run


def float_binop(op):
    import operator
    table = {'Eq': operator.eq, 'Ne': operator.ne, 'Lt': operator.lt, 'Le': operator.le, 'Gt': operator.gt, 'Ge': operator.ge,
             'Add': operator.add, 'Sub': operator.sub, 'Mul': operator.mul}

    def run(ex, a, b):
        if is_sym(a) or is_sym(b):
            raise Unsupported('symbolic f64 arithmetic (engine M has no symbolic floats)')
        if op == 'Div':
            if b == 0:
                if a == 0 or a != a:
                    return float('nan')
                return math.copysign(float('inf'), a) * math.copysign(1.0, b)
            return a / b
        if op == 'Rem':
            if b == 0 or a in (float('inf'), float('-inf')):
                return float('nan')
            return math.fmod(a, b)
        try:
            return table[op](a, b)
        except OverflowError:
            return float('inf')
    return run


def bool_binop(op):
    def run(ex, a, b):
        if not is_sym(a) and not is_sym(b):
            a, b = bool(a), bool(b)
            if op == 'Eq': return a == b
            if op == 'Ne': return a != b
            if op == 'BitAnd': return a and b
            if op == 'BitOr': return a or b
            if op == 'BitXor': return a != b
            if op == 'Lt': return (not a) and b
            if op == 'Le': return (not a) or b
            if op == 'Gt': return a and not b
            if op == 'Ge': return a or not b
            raise Unsupported('bool op ' + op)
        A, B = zbool(a), zbool(b)
        if op == 'Eq': return simp_bool(A == B)
        if op in ('Ne', 'BitXor'): return simp_bool(A != B)
        if op == 'BitAnd': return simp_bool(z3.And(A, B))
        if op == 'BitOr': return simp_bool(z3.Or(A, B))
        raise Unsupported('sym bool op ' + op)
    return run


def compile_rvalue(prog, fn, rv, dst_type=None):
    k = rv[0]
    if k == 'use':
        return compile_operand(prog, fn, rv[1])
    if k == 'ref':
        return compile_place(prog, fn, rv[1])
    if k == 'binop':
        op = rv[1]
        fa, fb = compile_operand(prog, fn, rv[2]), compile_operand(prog, fn, rv[3])
        ty = operand_type(fn, rv[2])
        if ty == '?' or ty not in W and ty != 'f64':
            ty2 = operand_type(fn, rv[3])
            if ty2 in W or ty2 == 'f64':
                ty = ty2
        if ty == 'bool':
            run = bool_binop(op)
        elif ty == 'f64':
            run = float_binop(op)
        elif ty in W:
            run = int_binop(op, W[ty], ty in SIGNED)
        elif op in ('Eq', 'Ne') and (ty.startswith('*') or ty.startswith('&')):
            neg = op == 'Ne'

            def run(ex, a, b):
                if isinstance(a, Ref) and isinstance(b, Ref):
                    r = a.cell is b.cell and a.path == b.path
                    return (not r) if neg else r
                raise Unsupported('pointer comparison')
        elif op == 'Offset':
            def run(ex, a, b):
                raise Unsupported('pointer offset')
        else:
            # isize discriminant compares etc. print a type we could not resolve: decide at run time
            wrun = {}

            def run(ex, a, b, op=op, ty=ty):
                if isinstance(a, float) or isinstance(b, float):
                    return float_binop(op)(ex, a, b)
                if isinstance(a, bool) or isinstance(b, bool) or (is_sym(a) and z3.is_bool(a)):
                    return bool_binop(op)(ex, a, b)
                w = a.size() if is_sym(a) else (b.size() if is_sym(b) else 64)
                if w not in wrun:
                    wrun[w] = int_binop(op, w, True)
                return wrun[w](ex, a, b)
        return lambda ex, fr: run(ex, fa(ex, fr), fb(ex, fr))
    if k == 'unop':
        fo = compile_operand(prog, fn, rv[2])
        ty = operand_type(fn, rv[2])
        if rv[1] == 'Not':
            def f(ex, fr):
                v = fo(ex, fr)
                if v.__class__ is bool:
                    return not v
                if is_sym(v):
                    return simp_bool(z3.Not(v)) if z3.is_bool(v) else z3.simplify(~v)
                return (~v) & ((1 << W[ty]) - 1)
            return f
        if rv[1] == 'Neg':
            def f(ex, fr):
                v = fo(ex, fr)
                if isinstance(v, float):
                    return -v
                if is_sym(v):
                    return z3.simplify(-v)
                return (-v) & ((1 << W[ty]) - 1)
            return f
        if rv[1] == 'PtrMetadata':
            return lambda ex, fr: seq_len(ex, ex.deref_all(fo(ex, fr)))
        raise Unsupported('unop ' + rv[1])
    if k == 'discr':
        g = compile_place(prog, fn, rv[1])

        def f(ex, fr):
            v = ex.read(g(ex, fr))
            if v.__class__ is Adt:
                return prog.discr_value(v)
            raise Unsupported('discriminant of %r' % (v,) + ctx(fn, ''))
        return f
    if k == 'cast':
        fo = compile_operand(prog, fn, rv[1])
        ty, kind = rv[2], rv[3]
        src = operand_type(fn, rv[1])
        if kind == 'IntToInt':
            w = W.get(ty)
            if w is None:
                raise Unsupported('IntToInt to ' + ty)

            def f(ex, fr):
                v = fo(ex, fr)
                if v.__class__ is bool:
                    return int(v)
                if v.__class__ is Adt:      # field-less enum `as` integer
                    v = prog.discr_value(v)
                if is_sym(v):
                    if z3.is_bool(v):
                        return z3.If(v, z3.BitVecVal(1, w), z3.BitVecVal(0, w))
                    if w > v.size():
                        return z3.simplify(z3.SignExt(w - v.size(), v) if src in SIGNED else z3.ZeroExt(w - v.size(), v))
                    return z3.simplify(z3.Extract(w - 1, 0, v)) if w < v.size() else v
                if src in SIGNED and v >> (W[src] - 1):
                    v -= (1 << W[src])
                return v & ((1 << w) - 1)
            return f
        if kind == 'IntToFloat':
            def f(ex, fr):
                v = fo(ex, fr)
                if is_sym(v):
                    raise Unsupported('symbolic int to float')
                if src in SIGNED:
                    v = to_signed(v, W[src])
                return float(v)
            return f
        if kind == 'FloatToInt':
            w = W[ty]
            sg = ty in SIGNED

            def f(ex, fr):
                v = fo(ex, fr)
                if is_sym(v):
                    raise Unsupported('symbolic float to int')
                if v != v:
                    return 0
                lo, hi = (-(1 << (w - 1)), (1 << (w - 1)) - 1) if sg else (0, (1 << w) - 1)
                if v == float('inf'):
                    r = hi
                elif v == float('-inf'):
                    r = lo
                else:
                    r = max(lo, min(hi, int(v)))
                return r & ((1 << w) - 1)
            return f
        if kind in ('PointerCoercion', 'Transmute', 'PtrToPtr', 'PointerExposeProvenance', 'PointerWithExposedProvenance', 'FnPtrToPtr', 'Subtype'):
            def f(ex, fr):
                v = fo(ex, fr)
                return Ref(v) if isinstance(v, Cell) else v
            return f
        raise Unsupported('cast ' + kind)
    if k == 'tuple':
        fs = [compile_operand(prog, fn, o) for o in rv[1]]
        return lambda ex, fr: [f(ex, fr) for f in fs]
    if k == 'array':
        fs = [compile_operand(prog, fn, o) for o in rv[1]]
        return lambda ex, fr: VecV([f(ex, fr) for f in fs])
    if k == 'closure':
        fs = [compile_operand(prog, fn, o) for o in rv[2]]
        ty = rv[1]
        return lambda ex, fr: Closure(ty, [f(ex, fr) for f in fs])
    if k == 'adt':
        fs = [compile_operand(prog, fn, o) for o in rv[2]]
        if not fs and dst_type and re.search(r'fn\(.*\{[^{}]+\}$', dst_type):
            # `_1 = path::to::function;` — a zero-sized function item (type printed as `fn(..) -> R {path}`), not a unit struct
            item = FnItem(rv[1])
            return lambda ex, fr: item
        name, variant = prog.adt_ctor(rv[1], dst_type)
        return lambda ex, fr: Adt(name, variant, [f(ex, fr) for f in fs])
    if k == 'len':
        g = compile_place(prog, fn, rv[1])
        return lambda ex, fr: seq_len(ex, ex.deref_all(ex.read(g(ex, fr))))
    if k == 'repeat':
        fo = compile_operand(prog, fn, rv[1])
        n = rv[2]
        return lambda ex, fr: VecV([deep_copy(fo(ex, fr)) for _ in range(n)])
    raise Unsupported('rvalue ' + k)


def compile_stmt(prog, fn, st):
    if st[0] == 'setdiscr':
        g = compile_place(prog, fn, st[1])
        d = st[2]

        def f(ex, fr):
            r = g(ex, fr)
            v = ex.read(r)
            if v.__class__ is Adt:
                v.variant = prog.variant_of_discr(v.name, d)
            else:
                raise Unsupported('set discriminant of non-adt')
        return f
    place, rv = st[1], st[2]
    frv = compile_rvalue(prog, fn, rv, place_type(fn, place))
    if place[0] == 'local':
        n = place[1]

        def f(ex, fr):
            fr[n].v = frv(ex, fr)
        return f
    g = compile_place(prog, fn, place)
    # enum payload written through a downcast before the discriminant is set: make sure the aggregate exists
    return lambda ex, fr: ex.write(g(ex, fr), frv(ex, fr))


def compile_term(prog, fn, term):
    k = term[0]
    if k == 'goto':
        t = term[1]
        return lambda ex, fr: t
    if k == 'return':
        return lambda ex, fr: None
    if k == 'drop':
        g = compile_place(prog, fn, term[1])
        t = term[2]

        def f(ex, fr):
            v = ex.read(g(ex, fr))
            if v.__class__ is Adt or v.__class__ is VecV or v.__class__ is list or v.__class__ is MapV:
                ex.drop_value(v)
            return t
        return f
    if k == 'switch':
        fo = compile_operand(prog, fn, term[1])
        arms = term[2]
        table = {kv: b for kv, b in arms if kv is not None}
        other = arms[-1][1] if arms[-1][0] is None else None
        keys = [kv for kv, b in arms if kv is not None]

        def f(ex, fr):
            v = fo(ex, fr)
            if v.__class__ is bool:
                v = int(v)
            if v.__class__ is int:
                t = table.get(v, other)
                if t is None:
                    raise Unsupported('switchInt without matching arm' + ctx(fn, str(v)))
                return t
            if not is_sym(v):
                raise Unsupported('switchInt on %r' % (v,) + ctx(fn, ''))
            if z3.is_bool(v):
                conds = [simp_bool(z3.Not(v) if kv == 0 else v) for kv in keys]
            else:
                conds = [simp_bool(v == kv) for kv in keys]
            if other is not None:
                sym = [c for c in conds if c is not True and c is not False]
                if any(c is True for c in conds):
                    conds.append(False)
                else:
                    conds.append(simp_bool(z3.Not(z3.Or(sym))) if sym else True)
            i = ex.choose(conds)
            return arms[i][1]
        return f
    if k == 'call':
        dst = term[1]
        callee = term[2]
        fs = [compile_operand(prog, fn, a) for a in term[3]]
        t = term[4]
        if dst[0] == 'local':
            n = dst[1]

            def f(ex, fr):
                fr[n].v = ex.call(callee, [a(ex, fr) for a in fs])
                return t
            return f
        g = compile_place(prog, fn, dst)

        def f(ex, fr):
            r = ex.call(callee, [a(ex, fr) for a in fs])
            ex.write(g(ex, fr), r)
            return t
        return f
    if k == 'callptr':
        g = compile_place(prog, fn, term[1])
        fp = compile_operand(prog, fn, term[2])
        fs = [compile_operand(prog, fn, a) for a in term[3]]
        t = term[4]

        def f(ex, fr):
            r = ex.call_value(fp(ex, fr), [a(ex, fr) for a in fs])
            ex.write(g(ex, fr), r)
            return t
        return f
    if k == 'assert':
        fo = compile_operand(prog, fn, term[1])
        expect, msg, t = term[2], term[3], term[4]

        def f(ex, fr):
            v = fo(ex, fr)
            if v.__class__ is bool:
                ok = v if expect else not v
            else:
                ok = v if expect else z3.Not(v)
            if not ex.branch(ok):
                raise Panic(msg)
            return t
        return f
    if k == 'diverge':
        callee = term[1]
        fs = [compile_operand(prog, fn, a) for a in term[2]]

        def f(ex, fr):
            # a diverging callee: panic!/todo!/unreachable!/process::exit/handle_alloc_error or an interpreted `-> !` function
            tgt = None
            try:
                tgt = ex.prog.resolve(callee, [], ex)
            except Unsupported:
                pass
            if tgt is not None and not callable(tgt):
                ex.run(tgt, [a(ex, fr) for a in fs])
            detail = ''
            if callee.endswith('panic_fmt') and fs:
                try:
                    from .natives_str import render_arguments
                    detail = ' "' + ''.join(chr(c) if isinstance(c, int) else '?' for c in render_arguments(ex, ex.deref_all(fs[0](ex, fr))))[:160] + '"'
                except Exception:
                    detail = ''
            raise Panic('panic: ' + callee[:100] + detail + ' in ' + str(getattr(fn, 'name', '?'))[-60:])
        return f
    if k == 'unreachable':
        def f(ex, fr):
            raise Unsupported('reached `unreachable`' + ctx(fn, ''))
        return f
    raise Unsupported('terminator %r' % (term,))


def compile_fn(prog, fn):
    if not fn.parsed:
        parse_body(fn)
    code = {}
    for bb, (stmts, term) in fn.blocks.items():
        cs = []
        for st in stmts:
            try:
                cs.append(compile_stmt(prog, fn, st))
            except Unsupported as e:
                msg = str(e) + ctx(fn, 'bb%d' % bb)

                def bad(ex, fr, msg=msg):
                    raise Unsupported(msg)
                cs.append(bad)
        if term is None:
            def ct(ex, fr, bb=bb):
                raise Unsupported('block without terminator bb%d' % bb + ctx(fn, ''))
        else:
            try:
                ct = compile_term(prog, fn, term)
            except Unsupported as e:
                msg = str(e) + ctx(fn, 'bb%d' % bb)

                def ct(ex, fr, msg=msg):
                    raise Unsupported(msg)
        code[bb] = (cs, ct)
    fn.compiled = code
    return code
