"""Parser for rustc `-Zunpretty=mir` dumps (mir-opt-level=0).  Text -> Func objects holding a small tuple AST.
Anything that is not recognised raises ParseError; nothing is guessed."""
import re

W = {'u8': 8, 'u16': 16, 'u32': 32, 'u64': 64, 'usize': 64, 'u128': 128, 'i8': 8, 'i16': 16, 'i32': 32, 'i64': 64,
     'isize': 64, 'i128': 128, 'bool': 1, 'char': 32}
SIGNED = {'i8', 'i16', 'i32', 'i64', 'isize', 'i128'}


class ParseError(Exception):
    pass


def split_top(s, sep=','):
    out, depth, cur, i = [], 0, [], 0
    n = len(s)
    instr = False
    while i < n:
        c = s[i]
        if c == '"' and (i == 0 or s[i - 1] != '\\'):
            instr = not instr
        if not instr:
            if c in '([{':
                depth += 1
            elif c in ')]}':
                depth -= 1
            elif c == '<':
                depth += 1
            elif c == '>' and i > 0 and s[i - 1] not in '-=':
                depth -= 1
        if c == sep and depth == 0 and not instr:
            out.append(''.join(cur).strip())
            cur = []
        else:
            cur.append(c)
        i += 1
    t = ''.join(cur).strip()
    if t:
        out.append(t)
    return out


def parse_place(s):
    p, rest = _pp(s.strip())
    if rest.strip():
        raise ParseError('place rest %r in %r' % (rest, s))
    return p


def _match_paren(s, k):
    depth = 1
    while depth:
        c = s[k]
        if c == '(':
            depth += 1
        elif c == ')':
            depth -= 1
        k += 1
    return k


def _pp(s):
    if s[0] == '_':
        m = re.match(r'_(\d+)', s)
        p = ('local', int(m.group(1)))
        s = s[m.end():]
    elif s.startswith('(*'):
        inner, rest = _pp(s[2:])
        if rest[0] != ')':
            raise ParseError('deref ' + s)
        p = ('deref', inner)
        s = rest[1:]
    elif s[0] == '(':
        inner, rest = _pp(s[1:])
        if rest.startswith(' as '):
            # (_1 as Variant) or (_1 as variant#3)
            j = rest.index(')')
            p = ('downcast', inner, rest[4:j])
            s = rest[j + 1:]
        else:
            m = re.match(r'\.(\d+): ', rest)
            if not m:
                raise ParseError('field ' + rest)
            k = _match_paren(rest, m.end())
            p = ('field', inner, int(m.group(1)), rest[m.end():k - 1])
            s = rest[k:]
    else:
        raise ParseError('place? ' + s)
    while s.startswith('['):
        j = s.index(']')
        inner = s[1:j]
        m = re.match(r'_(\d+)$', inner)
        if m:
            p = ('index', p, int(m.group(1)))
        else:
            m2 = re.match(r'(-?\d+) of (\d+)$', inner)
            m3 = re.match(r'(\d*):(-?\d*)$', inner)
            if m2:
                p = ('constindex', p, int(m2.group(1)), int(m2.group(2)))
            elif m3:
                p = ('subslice', p, m3.group(1), m3.group(2))
            else:
                raise ParseError('index ' + inner)
        s = s[j + 1:]
    return p, s


def parse_operand(o):
    o = o.strip()
    if o.startswith('copy '):
        return ('copy', parse_place(o[5:]))
    if o.startswith('move '):
        return ('move', parse_place(o[5:]))
    if o.startswith('const '):
        return ('const', parse_const(o[6:]))
    raise ParseError('operand? ' + o)


def _unescape(t):
    if '\\' not in t:
        return t
    out = []
    i = 0
    b = bytearray()
    while i < len(t):
        c = t[i]
        if c == '\\':
            n = t[i + 1]
            if n == 'n': b += b'\n'; i += 2
            elif n == 'r': b += b'\r'; i += 2
            elif n == 't': b += b'\t'; i += 2
            elif n == '0': b += b'\0'; i += 2
            elif n == '\\': b += b'\\'; i += 2
            elif n == '"': b += b'"'; i += 2
            elif n == "'": b += b"'"; i += 2
            elif n == 'x': b.append(int(t[i + 2:i + 4], 16)); i += 4
            elif n == 'u':
                j = t.index('}', i)
                b += chr(int(t[i + 3:j], 16)).encode('utf-8'); i = j + 1
            else:
                raise ParseError('escape ' + t[i:i + 4])
        else:
            b += c.encode('utf-8')
            i += 1
    return bytes(b)


def parse_const(c):
    m = re.match(r'(-?\d+)_(\w+)$', c)
    if m:
        return ('int', int(m.group(1)), m.group(2))
    if c in ('false', 'true'):
        return ('bool', c == 'true')
    if c == '()':
        return ('unit',)
    m = re.match(r'"((?:[^"\\]|\\.)*)"$', c, re.S)
    if m:
        u = _unescape(m.group(1))
        return ('str', u.decode('utf-8') if isinstance(u, bytes) else u)
    if c.startswith('b"') and c.endswith('"'):
        u = _unescape(c[2:-1])
        return ('bytes', u if isinstance(u, bytes) else u.encode('utf-8'))
    m = re.match(r'(?:.*::)?([ui](?:8|16|32|64|128|size))::(MAX|MIN)$', c) or re.match(r'.*<impl ([ui](?:8|16|32|64|128|size))>::(MAX|MIN)$', c)
    if m:
        t = m.group(1)
        w = W[t]
        if t in SIGNED:
            v = (1 << (w - 1)) - 1 if m.group(2) == 'MAX' else (1 << (w - 1))
        else:
            v = (1 << w) - 1 if m.group(2) == 'MAX' else 0
        return ('int', v, t)
    m = re.match(r'(?:.*::)?([ui](?:8|16|32|64|128|size))::BITS$', c) or re.match(r'.*<impl ([ui](?:8|16|32|64|128|size))>::BITS$', c)
    if m:
        return ('int', W[m.group(1)], 'u32')
    m = re.match(r'CHAR(\d+)$', c)
    if m:
        return ('int', int(m.group(1)), 'char')
    m = re.match(r'(-?(?:[\d.]+(?:[eE][-+]?\d+)?|inf|NaN))f64$', c)
    if m:
        return ('f64', float(m.group(1).replace('NaN', 'nan')))
    m = re.match(r'(?:.*::)?f64::(\w+)$', c) or re.match(r'.*<impl f64>::(\w+)$', c)
    if m and m.group(1) in ('NAN', 'INFINITY', 'NEG_INFINITY', 'MAX', 'MIN', 'EPSILON'):
        import sys
        return ('f64', {'NAN': float('nan'), 'INFINITY': float('inf'), 'NEG_INFINITY': float('-inf'),
                        'MAX': sys.float_info.max, 'MIN': -sys.float_info.max, 'EPSILON': sys.float_info.epsilon}[m.group(1)])
    return ('item', c)


BINOPS = {'Eq', 'Ne', 'Lt', 'Le', 'Gt', 'Ge', 'Add', 'Sub', 'Mul', 'Div', 'Rem', 'BitAnd', 'BitOr', 'BitXor', 'Shl', 'Shr',
          'AddWithOverflow', 'SubWithOverflow', 'MulWithOverflow', 'AddUnchecked', 'SubUnchecked', 'MulUnchecked',
          'ShlUnchecked', 'ShrUnchecked', 'Offset', 'Cmp'}
_TYCH = r"[\w:<>, \[\]&'()*;+=\-{}@#./]"


def parse_rvalue(rv):
    rv = rv.strip()
    m = re.match(r'(\w+)\((.*)\)$', rv, re.S)
    if m and m.group(1) in BINOPS:
        a, b = split_top(m.group(2))
        return ('binop', m.group(1), parse_operand(a), parse_operand(b))
    if m and m.group(1) in ('Not', 'Neg', 'PtrMetadata'):
        return ('unop', m.group(1), parse_operand(m.group(2)))
    if m and m.group(1) == 'discriminant':
        return ('discr', parse_place(m.group(2)))
    if m and m.group(1) == 'Len':
        return ('len', parse_place(m.group(2)))
    if rv.startswith('&mut '):
        return ('ref', parse_place(rv[5:]))
    if rv.startswith('&raw '):
        rest = rv.split(' ', 2)[2]
        if rest.startswith('(fake) '):
            rest = rest[7:]
        return ('ref', parse_place(rest))
    if rv.startswith('&fake shallow '):
        return ('ref', parse_place(rv[14:]))
    if rv.startswith('&'):
        return ('ref', parse_place(rv[1:]))
    if rv.startswith('no_retag '):
        return parse_rvalue(rv[9:])
    m = re.match(r'((?:move|copy|const) .*) as (.*?) \((\w+)(?:\(.*\))?\)$', rv, re.S)
    if m:
        return ('cast', parse_operand(m.group(1)), m.group(2), m.group(3))
    if rv.startswith(('copy ', 'move ', 'const ')):
        return ('use', parse_operand(rv))
    if rv.startswith('['):
        inner = rv[1:-1]
        if re.search(r'; \d+$', inner):
            a, n = inner.rsplit(';', 1)
            return ('repeat', parse_operand(a), int(n))
        return ('array', [parse_operand(x) for x in split_top(inner)])
    if rv.startswith('('):
        return ('tuple', [parse_operand(x) for x in split_top(rv[1:-1])])
    m = re.match(r'(\{closure@[^}]*\})(?: \{(.*)\})?$', rv, re.S)
    if m:
        ups = []
        if m.group(2):
            for f in split_top(m.group(2)):
                ups.append(parse_operand(f.split(': ', 1)[1]))
        return ('closure', m.group(1), ups)
    m = re.match(r'(' + _TYCH + r'+?) \{ (.*) \}$', rv, re.S)
    if m:
        names, fields = [], []
        for f in split_top(m.group(2)):
            n, o = f.split(': ', 1)
            names.append(n)
            fields.append(parse_operand(o))
        return ('adt', m.group(1), fields, names)
    if rv.endswith(')'):
        depth = 0
        k = len(rv) - 1
        while k >= 0:
            c = rv[k]
            if c == ')':
                depth += 1
            elif c == '(':
                depth -= 1
                if depth == 0:
                    break
            k -= 1
        if k > 0 and re.match(_TYCH + r'+$', rv[:k]):
            return ('adt', rv[:k], [parse_operand(x) for x in split_top(rv[k + 1:-1])], None)
    if re.match(_TYCH + r'+$', rv):
        return ('adt', rv, [], None)
    raise ParseError('rvalue? ' + rv)


class Func:
    __slots__ = ('name', 'params', 'ret', 'blocks', 'ltypes', 'raw', 'parsed', 'nlocals', 'compiled', 'crate')

    def __repr__(s):
        return 'Func(%s)' % s.name


_FN_RE = re.compile(r'^fn (.+?)\((.*?)\) -> (.+?) \{\n(.*?)^\}\n', re.S | re.M)


def load_mir(text, crate):
    funcs = {}
    for m in _FN_RE.finditer(text):
        f = Func()
        f.name, f.ret, f.raw, f.parsed, f.compiled, f.crate = m.group(1), m.group(3), m.group(4), False, None, crate
        ps = split_top(m.group(2)) if m.group(2).strip() else []
        f.params = []
        for p in ps:
            a, b = p.split(':', 1)
            f.params.append((int(a.strip()[1:]), b.strip()))
        funcs[f.name] = f
    return funcs


_ESC = {'n': 10, 'r': 13, 't': 9, '0': 0, "'": 39, '"': 34, '\\': 92}


def _chr(m):
    t = m.group(1)
    if t.startswith('\\u{'):
        return 'const CHAR%d' % int(t[3:-1], 16)
    if t.startswith('\\x'):
        return 'const CHAR%d' % int(t[2:], 16)
    if t.startswith('\\'):
        return 'const CHAR%d' % _ESC[t[1:]]
    return 'const CHAR%d' % ord(t)


_CHR_RE = re.compile(r"const '((?:\\u\{[0-9a-fA-F]+\}|\\x[0-9a-fA-F]{2}|\\.|[^'\\]))'")
_SKIP = ('StorageLive', 'StorageDead', 'FakeRead', 'PlaceMention', 'AscribeUserType', 'Coverage', 'nop', 'Retag',
         'ConstEvalCounter', 'BackwardIncompatibleDropHint')
_BB_RE = re.compile(r'^    (bb\d+)(?: \(cleanup\))?: \{\n(.*?)^    \}\n', re.S | re.M)


def parse_body(f):
    body = f.raw
    lt = {}
    for n, t in re.findall(r'^\s+let (?:mut )?_(\d+): (.+);$', body, re.M):
        lt[int(n)] = t
    for p, t in f.params:
        lt[p] = t
    lt.setdefault(0, f.ret)
    f.ltypes = lt
    f.nlocals = max(lt) + 1
    blocks = {}
    for bm in _BB_RE.finditer(body):
        stmts = []
        lines = []
        cur = ''
        for l in bm.group(2).split('\n'):
            l = l.strip()
            if not l:
                continue
            cur = (cur + ' ' + l) if cur else l
            if cur.endswith(';'):
                lines.append(cur[:-1])
                cur = ''
        if cur:
            lines.append(cur)
        term = None
        for line in lines:
            if line.startswith(_SKIP) or line.startswith('//'):
                continue
            if "const '" in line:
                line = _CHR_RE.sub(_chr, line)
            if line == 'return':
                term = ('return',)
                continue
            if line in ('unreachable', 'resume', 'unwind resume', 'unwind terminate(cleanup)', 'unwind terminate(abi)'):
                term = ('unreachable',)
                continue
            m = re.match(r'goto -> (bb\d+)$', line)
            if m:
                term = ('goto', int(m.group(1)[2:]))
                continue
            m = re.match(r'falseEdge -> \[real: (bb\d+), imaginary: bb\d+\]$', line)
            if m:
                term = ('goto', int(m.group(1)[2:]))
                continue
            m = re.match(r'falseUnwind -> \[real: (bb\d+), unwind: .*\]$', line)
            if m:
                term = ('goto', int(m.group(1)[2:]))
                continue
            m = re.match(r'switchInt\((.*)\) -> \[(.*)\]$', line)
            if m:
                arms = []
                for a in split_top(m.group(2)):
                    k, b = a.split(': ')
                    arms.append((None if k == 'otherwise' else int(k), int(b[2:])))
                term = ('switch', parse_operand(m.group(1)), arms)
                continue
            m = re.match(r'assert\((!?)(.*?), "((?:[^"\\]|\\.)*)".*?\) -> \[success: (bb\d+)', line)
            if m:
                term = ('assert', parse_operand(m.group(2)), m.group(1) == '', m.group(3), int(m.group(4)[2:]))
                continue
            m = re.match(r'drop\((.*?)\) -> \[return: (bb\d+)', line)
            if m:
                term = ('drop', parse_place(m.group(1)), int(m.group(2)[2:]))
                continue
            m = re.match(r'(.*?) = (.*)\) -> \[return: (bb\d+).*\]$', line)
            if m and not m.group(2).startswith(('copy ', 'move ', 'const ')):
                callee_args = m.group(2)
                depth = 0
                k = len(callee_args) - 1
                while k >= 0:
                    c = callee_args[k]
                    if c == ')':
                        depth += 1
                    elif c == '(':
                        if depth == 0:
                            break
                        depth -= 1
                    k -= 1
                callee, args = callee_args[:k].strip(), callee_args[k + 1:]
                term = ('call', parse_place(m.group(1)), callee, [parse_operand(a) for a in split_top(args)], int(m.group(3)[2:]))
                continue
            m = re.match(r'(.*?) = (.*)\) -> \[return: (bb\d+).*\]$', line)
            if m:
                # call through a function pointer / closure local: "_5 = move _6(move _7) -> ..."
                mm = re.match(r'((?:copy|move) [^(]+?)\((.*)$', m.group(2))
                if mm:
                    term = ('callptr', parse_place(m.group(1)), parse_operand(mm.group(1)), [parse_operand(a) for a in split_top(mm.group(2))], int(m.group(3)[2:]))
                    continue
            m = re.match(r'(.*?) = (.*)\) -> (?:unwind|bb\d+$)', line)
            if m:
                ca = m.group(2)
                depth = 0
                k = len(ca) - 1
                while k >= 0:
                    c = ca[k]
                    if c == ')':
                        depth += 1
                    elif c == '(':
                        if depth == 0:
                            break
                        depth -= 1
                    k -= 1
                try:
                    args = [parse_operand(a) for a in split_top(ca[k + 1:])]
                except ParseError:
                    args = []
                term = ('diverge', ca[:k].strip(), args)
                continue
            m = re.match(r'discriminant\((.*)\) = (\d+)$', line)
            if m:
                stmts.append(('setdiscr', parse_place(m.group(1)), int(m.group(2))))
                continue
            m = re.match(r'Deinit\((.*)\)$', line)
            if m:
                continue
            m = re.match(r'(.*?) = (.*)$', line, re.S)
            if m:
                stmts.append(('assign', parse_place(m.group(1)), parse_rvalue(m.group(2))))
                continue
            raise ParseError('stmt? %r in %s' % (line, f.name))
        blocks[int(bm.group(1)[2:])] = (stmts, term)
    f.blocks = blocks
    f.parsed = True
