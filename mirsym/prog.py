"""Program: the function/const/impl index over the MIR dumps of rFSM and the harness crate, and call resolution."""
import re, os, collections
from .mirparse import load_mir, parse_const, split_top, Func
from .values import *

_GEN_PARAM = re.compile(r'^[A-Z][A-Za-z0-9]?$')


def strip_generics(s):
    out, depth, i = [], 0, 0
    n = len(s)
    while i < n:
        c = s[i]
        if c == '<':
            depth += 1
        elif c == '>' and i > 0 and s[i - 1] != '-':
            depth -= 1
        elif depth == 0:
            out.append(c)
        i += 1
    r = ''.join(out)
    while '::::' in r:
        r = r.replace('::::', '::')
    return r.strip(':')


def head(ty):
    ty = ty.strip()
    ty = re.sub(r"^&(?:'\w+ )?(?:mut )?", '', ty)
    ty = re.sub(r"^\*(?:const|mut) ", '', ty)
    if ty.startswith('dyn '):
        return 'dyn'
    if ty.startswith('['):
        return 'slice'
    if ty.startswith('('):
        return 'tuple'
    if ty.startswith('{closure'):
        return 'closure'
    if ty.startswith('fn(') or ty.startswith('for<') or ty.startswith('unsafe fn') or ty.startswith('extern '):
        return 'fnptr'
    t = strip_generics(ty)
    return t.split('::')[-1]


def split_qual(callee):
    """'<A as B>::m...' -> (A, B, rest) ; '<A>::m' -> (A, None, rest); else None"""
    if not callee.startswith('<'):
        return None
    depth = 0
    for i, c in enumerate(callee):
        if c == '<':
            depth += 1
        elif c == '>' and callee[i - 1] != '-':
            depth -= 1
            if depth == 0:
                inner, rest = callee[1:i], callee[i + 1:]
                d2 = 0
                for j in range(len(inner)):
                    ch = inner[j]
                    if ch in '<([':
                        d2 += 1
                    elif ch in '>)]' and inner[j - 1] != '-':
                        d2 -= 1
                    elif d2 == 0 and inner.startswith(' as ', j):
                        return inner[:j], inner[j + 4:], rest
                return inner, None, rest
    return None


def ckey(name):
    name = re.sub(r'<impl at [^>]*>', 'IMPL', name)
    parts = name.split('::')
    if parts[-1].startswith('promoted['):
        k = 2
        while len(parts) > k and parts[-k].startswith('{'):
            k += 1
        return '::'.join(parts[-k:])
    return parts[-1]


STD_ENUMS = {
    'Option': ['None', 'Some'], 'Result': ['Ok', 'Err'], 'Ordering': ['Less', 'Equal', 'Greater'],
    'ControlFlow': ['Continue', 'Break'], 'Entry': ['Occupied', 'Vacant'], 'Cow': ['Borrowed', 'Owned'],
    'Bound': ['Included', 'Excluded', 'Unbounded'],
    'ErrorKind': ['NotFound', 'PermissionDenied', 'ConnectionRefused', 'ConnectionReset', 'HostUnreachable', 'NetworkUnreachable',
                  'ConnectionAborted', 'NotConnected', 'AddrInUse', 'AddrNotAvailable', 'NetworkDown', 'BrokenPipe', 'AlreadyExists',
                  'WouldBlock', 'NotADirectory', 'IsADirectory', 'DirectoryNotEmpty', 'ReadOnlyFilesystem', 'FilesystemLoop',
                  'StaleNetworkFileHandle', 'InvalidInput', 'InvalidData', 'TimedOut', 'WriteZero', 'StorageFull', 'NotSeekable',
                  'QuotaExceeded', 'FileTooLarge', 'ResourceBusy', 'ExecutableFileBusy', 'Deadlock', 'CrossesDevices', 'TooManyLinks',
                  'InvalidFilename', 'ArgumentListTooLong', 'Interrupted', 'Unsupported', 'UnexpectedEof', 'OutOfMemory', 'InProgress', 'Other', 'Uncategorized'],
    'AtomicOrdering': ['Relaxed', 'Release', 'Acquire', 'AcqRel', 'SeqCst'],
}
DISCR = {'Ordering': [255, 0, 1]}     # i8 -1,0,1 printed as raw bits in switchInt arms


class Program:
    def __init__(s, dumps):
        """dumps: list of (mir_text, crate_name, crate_root_dir)  -- crate_root_dir contains src/"""
        s.funcs = {}
        s.inherent = {}
        s.traitimpl = {}
        s.free = {}
        s.free_q = {}
        s.closures = {}
        s.defaults = {}
        s.enums = dict(STD_ENUMS)
        s.structs = set()
        s.natives = {}
        s.consts = {}
        s.statics = {}
        s.allocs = {}
        s.crates = []
        for text0, crate, root in dumps:
            s.crates.append(crate)
            s.scan_types(os.path.join(root, 'src'))
            text = re.sub(r'^((?:const|static) [^\n]*?)<impl at [^>]*>', r'\1IMPL', text0, flags=re.M)
            for m in re.finditer(r'^(const|static) (?:mut )?([^\n]+?): ([^\n]+?) = const (.*);$', text, re.M):
                (s.statics if m.group(1) == 'static' else s.consts)[ckey(m.group(2))] = ('lit', parse_const(m.group(4)))
            for m in re.finditer(r'^(const|static) (?:mut )?([^\n]+?): ([^\n]+?) = \{\n(.*?)^\}\n', text, re.S | re.M):
                f = Func()
                f.name, f.ret, f.raw, f.parsed, f.params, f.compiled, f.crate = m.group(2), m.group(3), m.group(4), False, [], None, crate
                (s.statics if m.group(1) == 'static' else s.consts)[ckey(m.group(2))] = ('body', f)
            for m in re.finditer(r'^(alloc\d+) \(static: ([\w:]+)', text, re.M):
                s.allocs[(crate, m.group(1))] = m.group(2).split('::')[-1]
            fs = load_mir(text0, crate)
            for name, f in fs.items():
                s.funcs[name] = f
                s.index(name, f, root)
        s._vo = None
        s._src_cache = {}

    # ------------------------------------------------------------------ source scanning
    def scan_types(s, srcdir):
        for dp, _, fns in os.walk(srcdir):
            for fn in fns:
                if not fn.endswith('.rs'):
                    continue
                src = open(os.path.join(dp, fn)).read()
                for m in re.finditer(r'\benum (\w+)(?:<[^>]*>)?\s*\{(.*?)\n\}', src, re.S):
                    body = re.sub(r'//.*', '', m.group(2))
                    body = re.sub(r'#\[[^\]]*\]', '', body)
                    vs = []
                    for part in split_top(body):
                        mm = re.match(r'\s*(\w+)', part)
                        if mm:
                            vs.append(mm.group(1))
                    s.enums[m.group(1)] = vs
                for m in re.finditer(r'\bstruct (\w+)', src):
                    s.structs.add(m.group(1))

    def index(s, name, f, root):
        m = re.search(r'\{closure#\d+\}$', name)
        if m and f.params:
            s.closures[re.sub(r"^&(?:'\w+ )?(?:mut )?", '', f.params[0][1])] = f
            return
        m = re.match(r'(.*?)<impl at ([^:]+):(\d+):(\d+): \d+:\d+>::(\w+)$', name)
        if m:
            if m.group(2).startswith('/'):
                return
            path = os.path.join(root, m.group(2))
            if not os.path.exists(path):
                return
            lines = open(path).read().split('\n')
            ln = int(m.group(3)) - 1
            col = int(m.group(4)) - 1
            line = lines[ln]
            if 'derive' in line and line.strip().startswith('#['):
                trait = re.match(r'\w+', line[col:]).group(0)
                k = ln
                while not re.search(r'\b(struct|enum)\s+(\w+)', lines[k]):
                    k += 1
                ty = re.search(r'\b(struct|enum)\s+(\w+)', lines[k]).group(2)
                s.traitimpl[(ty, trait, m.group(5))] = f
            else:
                hdr = ' '.join(lines[ln:ln + 4])
                mm = re.match(r'\s*(?:unsafe )?impl(?:<[^{]*?>)?\s+(?:([\w:]+)(?:<[^{]*?>)?\s+for\s+)?(&?(?:mut )?[\w:]+)', hdr)
                if not mm or '$' in hdr:
                    return
                ty = mm.group(2).lstrip('&').split('::')[-1]
                if mm.group(1):
                    tr = mm.group(1).split('::')[-1]
                    # generic blanket impls `impl<T: ..> Trait for T`: index under '*'
                    if _GEN_PARAM.match(ty):
                        ty = '*'
                    s.traitimpl.setdefault((ty, tr, m.group(5)), f)
                else:
                    s.inherent[(ty, m.group(5))] = f
            return
        m = re.match(r'(.*)<impl ([^>]+?)>::(\w+)$', name)
        if m:
            s.inherent[(head(m.group(2)), m.group(3))] = f
            return
        parts = name.split('::')
        if len(parts) >= 2 and parts[-2][:1].isupper():
            s.defaults[(parts[-2], parts[-1])] = f
        s.free[parts[-1]] = f
        if len(parts) >= 2:
            s.free_q[(parts[-2], parts[-1])] = f      # rustc qualifies a path only when the short name is ambiguous

    def variant_owner(s):
        if s._vo is None:
            cnt = collections.Counter(v for vs in s.enums.values() for v in vs)
            s._vo = {v: e for e, vs in s.enums.items() for v in vs if cnt[v] == 1 and v not in s.structs}
        return s._vo

    # ------------------------------------------------------------------ ADTs
    def adt_ctor(s, text, dst_type=None):
        base = strip_generics(text)
        parts = base.split('::')
        L = parts[-1]
        if len(parts) == 1 and dst_type:
            # bare (trimmed) variant name: the destination type decides which enum it belongs to
            h = head(dst_type)
            if h in s.enums and L in s.enums[h]:
                return h, s.enums[h].index(L)
        if len(parts) >= 2:
            P = parts[-2]
            if P in s.enums and L in s.enums[P]:
                return P, s.enums[P].index(L)
            if P == 'Ordering' and parts[-3:-2] == ['atomic'] or (len(parts) >= 3 and parts[-3] == 'atomic'):
                return 'AtomicOrdering', STD_ENUMS['AtomicOrdering'].index(L) if L in STD_ENUMS['AtomicOrdering'] else 0
        vo = s.variant_owner()
        if L in vo and L not in s.structs:
            e = vo[L]
            return e, s.enums[e].index(L)
        if L in ('Relaxed', 'Release', 'Acquire', 'AcqRel', 'SeqCst'):
            return 'AtomicOrdering', STD_ENUMS['AtomicOrdering'].index(L)
        return L, 0

    def discr_value(s, adt):
        d = DISCR.get(adt.name)
        if d is not None and isinstance(adt.variant, int):
            return d[adt.variant]
        return adt.variant

    def variant_of_discr(s, name, d):
        t = DISCR.get(name)
        if t is not None:
            return t.index(d)
        return d

    # ------------------------------------------------------------------ constants / statics
    def const_value(s, ex, name, fn=None):
        m = re.match(r'\{(alloc\d+): ', name)
        if m:
            crate = fn.crate if fn is not None else s.crates[0]
            st = s.allocs.get((crate, m.group(1)))
            if st is None:
                raise Unsupported('alloc constant ' + name)
            return Ref(s.static_cell(ex, st))
        key = ckey(name)
        if key in s.consts:
            kind, v = s.consts[key]
            if kind == 'lit':
                from .execu import compile_const
                return compile_const(s, None, v)(ex, None)
            return ex.run(v, [])
        flat = strip_generics(name)
        nat = s.natives.get('const ' + '::'.join(flat.split('::')[-2:]))
        if nat is not None:
            return nat(ex)
        return FnItem(name)

    def static_cell(s, ex, st):
        if st not in ex.static_cells:
            nat = s.natives.get('static ' + st)
            if nat is not None:
                ex.static_cells[st] = Cell(nat(ex))
            elif st in s.statics:
                kind, v = s.statics[st]
                if kind == 'lit':
                    from .execu import compile_const
                    ex.static_cells[st] = Cell(compile_const(s, None, v)(ex, None))
                else:
                    ex.static_cells[st] = Cell(ex.run(v, []))
            else:
                raise Unsupported('static ' + st)
        return ex.static_cells[st]

    # ------------------------------------------------------------------ runtime type of a value (for dyn / generic dispatch)
    def rtype(s, ex, v):
        while isinstance(v, Ref):
            v = ex.read(v)
        if isinstance(v, Adt):
            if v.name in ('Box', 'Arc', 'Rc'):
                return s.rtype(ex, v.fields[0].v)
            return v.name
        if isinstance(v, VecV):
            return 'Vec'
        if isinstance(v, SliceV):
            return 'slice'
        if isinstance(v, StrV):
            return 'String'
        if isinstance(v, MapV):
            return 'HashMap'
        if isinstance(v, (Closure, FnItem)):
            return 'closure'
        if isinstance(v, bool):
            return 'bool'
        if isinstance(v, float):
            return 'f64'
        if isinstance(v, int) or is_sym(v):
            return 'int'
        if isinstance(v, MutexV):
            return 'Mutex'
        if isinstance(v, list):
            return 'tuple'
        return type(v).__name__

    def native(s, key, callee):
        n = s.natives.get(key)
        if n is None:
            return None
        if getattr(n, 'want_callee', False):
            f = lambda ex, *a: n(ex, callee, *a)
            f.model_name = key
            return f
        if not hasattr(n, 'model_name'):
            try:
                n.model_name = key
            except AttributeError:
                pass
        return n

    def resolve(s, callee, args, ex):
        q = split_qual(callee)
        if q:
            a, tr, rest = q
            meth = strip_generics(rest).strip(':')
            th = head(a)
            trh = head(tr) if tr else None
            if trh is None:
                if (th, meth) in s.inherent:
                    return s.inherent[(th, meth)]
                n = s.native('%s::%s' % (th, meth), callee)
                if n:
                    return n
                raise Unsupported('call ' + callee + ' -> %s::%s' % (th, meth))
            generic = th in ('dyn', 'Self') or (_GEN_PARAM.match(th) and th not in s.enums and th not in s.structs) or th.startswith('impl ')
            if generic:
                if trh == 'Clone' and meth == 'clone' and args and isinstance(args[0], Ref) and isinstance(ex.read(args[0]), Ref):
                    # T is itself a reference type (&State in List<&State>): Clone strips exactly one reference level
                    return lambda ex, r: ex.read(r)
                rt = s.rtype(ex, args[0]) if args else None
                if rt == 'closure' and trh in ('Fn', 'FnMut', 'FnOnce'):
                    return lambda ex, clo, tup: s.call_closure(ex, clo, tup)
                if (rt, trh, meth) in s.traitimpl:
                    return s.traitimpl[(rt, trh, meth)]
                for key in ('<%s as %s>::%s' % (rt, trh, meth), '<* as %s>::%s' % (trh, meth)):
                    n = s.native(key, callee)
                    if n:
                        return n
                if (trh, meth) in s.defaults:
                    return s.defaults[(trh, meth)]
                if ('*', trh, meth) in s.traitimpl:
                    return s.traitimpl[('*', trh, meth)]
                raise Unsupported('dyn/generic call %s on runtime type %s' % (callee, rt))
            if (th, trh, meth) in s.traitimpl:
                return s.traitimpl[(th, trh, meth)]
            if th in ('closure', 'fnptr') and trh in ('Fn', 'FnMut', 'FnOnce'):
                return lambda ex, clo, tup: s.call_closure(ex, clo, tup)
            for key in ('<%s as %s>::%s' % (th, trh, meth), '<* as %s>::%s' % (trh, meth)):
                n = s.native(key, callee)
                if n:
                    return n
            if (trh, meth) in s.defaults:
                return s.defaults[(trh, meth)]
            if ('*', trh, meth) in s.traitimpl:
                return s.traitimpl[('*', trh, meth)]
            raise Unsupported('call ' + callee + ' -> <%s as %s>::%s' % (th, trh, meth))
        m = re.match(r'(.*)<impl ([^>]*(?:<[^>]*>)?[^>]*)>::(\w+)', callee)
        if m:
            th = head(m.group(2))
            meth = m.group(3)
            if (th, meth) in s.inherent:
                return s.inherent[(th, meth)]
            n = s.native('%s::%s' % (th, meth), callee)
            if n:
                return n
            raise Unsupported('call ' + callee + ' -> %s::%s' % (th, meth))
        flat = strip_generics(callee)
        parts = flat.split('::')
        if len(parts) >= 2 and (parts[-2], parts[-1]) in s.inherent:
            return s.inherent[(parts[-2], parts[-1])]
        key = '::'.join(parts[-2:]) if len(parts) >= 2 else parts[-1]
        n = s.native(key, callee)
        if n:
            return n
        n = s.native(parts[-1], callee) if len(parts) == 1 or not parts[-2][:1].isupper() else None
        if n:
            return n
        if len(parts) >= 2 and (parts[-2], parts[-1]) in s.defaults:
            return s.defaults[(parts[-2], parts[-1])]
        if len(parts) >= 2 and (parts[-2], parts[-1]) in s.free_q:
            return s.free_q[(parts[-2], parts[-1])]
        if parts[-1] in s.free and (len(parts) == 1 or not parts[-2][:1].isupper()):
            return s.free[parts[-1]]
        raise Unsupported('call ' + callee + ' -> ' + key)

    def call_closure(s, ex, clo, tup):
        c = clo
        while isinstance(c, Ref):
            c = ex.read(c)
        if isinstance(c, Adt) and c.name in ('Box', 'Arc'):
            c = c.fields[0].v
            while isinstance(c, Ref):
                c = ex.read(c)
        tup = list(tup)
        if isinstance(c, FnItem):
            t = s.resolve(c.path, tup, ex)
            return t(ex, *tup) if callable(t) else ex.run(t, tup)
        if callable(c):     # a native closure value (python callable taking ex, *args)
            return c(ex, *tup)
        if not isinstance(c, Closure):
            raise Unsupported('call of non-closure %r' % (c,))
        f = s.closures.get(c.ty)
        if f is None:
            raise Unsupported('closure body not found: ' + c.ty)
        byref = f.params[0][1].startswith('&')
        first = Ref(Cell(c)) if byref else c
        return ex.run(f, [first] + tup)

    # ------------------------------------------------------------------ strings
    def str_byte_len(s, ex, st):
        """UTF-8 byte length of a StrV (python int or z3 BV64 term)"""
        import z3
        n = 0
        sym = None
        for c in st.chars:
            if isinstance(c, int):
                n += 1 if c < 0x80 else 2 if c < 0x800 else 3 if c < 0x10000 else 4
            elif isinstance(c, SymPiece):
                raise Unsupported('byte length of text with a formatted symbolic integer')
            else:
                n += s.char_width(ex, c)
        return n

    def char_width(s, ex, c):
        """UTF-8 width of a symbolic char: decided by forking over the four width classes (cached per path)"""
        import z3
        cache = ex.env.setdefault('char_width', {})
        k = c.get_id()
        if k in cache:
            return cache[k]
        from .execu import simp_bool
        conds = [simp_bool(z3.ULT(c, 0x80)), simp_bool(z3.And(z3.UGE(c, 0x80), z3.ULT(c, 0x800))),
                 simp_bool(z3.And(z3.UGE(c, 0x800), z3.ULT(c, 0x10000))), simp_bool(z3.UGE(c, 0x10000))]
        w = ex.choose(conds) + 1
        cache[k] = w
        return w
