"""Runtime values of the MIR symbolic executor."""
import z3


class Cell:
    __slots__ = ('v',)

    def __init__(s, v=None):
        s.v = v


class Ref:
    """A reference / raw pointer / box interior: a cell plus a projection path."""
    __slots__ = ('cell', 'path')

    def __init__(s, cell, path=()):
        s.cell, s.path = cell, path

    def __repr__(s):
        return 'Ref(%r)' % (s.path,)


class Adt:
    __slots__ = ('name', 'variant', 'fields')

    def __init__(s, name, variant, fields):
        s.name, s.variant, s.fields = name, variant, fields

    def __repr__(s):
        return '%s#%s%r' % (s.name, s.variant, s.fields)


class VecV:
    """Vec / array / VecDeque / HashSet backing store: a list with concrete length."""
    __slots__ = ('items',)

    def __init__(s, items):
        s.items = items

    def __repr__(s):
        return 'Vec%r' % (s.items,)


class SliceV:
    """A sub-range view [lo, hi) onto a VecV; hi may be symbolic (truncation point)."""
    __slots__ = ('vec', 'lo', 'hi')

    def __init__(s, vec, lo, hi):
        s.vec, s.lo, s.hi = vec, lo, hi


class MapV:
    """HashMap model: association list of [key, value] pairs (insertion order kept; iteration order is permuted by the iterator model)."""
    __slots__ = ('items', 'order')

    def __init__(s):
        s.items = []
        s.order = None      # iteration order chosen (symbolically) at the first iteration; reset by every structural change


class SymPiece:
    """A piece of text that is the decimal rendering of a symbolic integer (only ever produced by format!)."""
    __slots__ = ('expr', 'signed')

    def __init__(s, expr, signed):
        s.expr, s.signed = expr, signed


class StrV:
    """String / str: list of code points (python int or z3 BV32) or SymPiece."""
    __slots__ = ('chars',)

    def __init__(s, t=''):
        s.chars = [ord(c) for c in t] if isinstance(t, str) else list(t)

    @property
    def s(s):
        try:
            return ''.join(map(chr, s.chars))
        except TypeError:
            raise Unsupported('concrete text needed but string has symbolic content')

    def is_concrete(s):
        return all(isinstance(c, int) for c in s.chars)

    def __repr__(s):
        return 'Str(%r)' % (s.s if s.is_concrete() else s.chars,)


class Closure:
    __slots__ = ('ty', 'ups')

    def __init__(s, ty, ups):
        s.ty, s.ups = ty, ups


class FnItem:
    """A function item / fn pointer value (printed as `const path::to::f`)."""
    __slots__ = ('path',)

    def __init__(s, path):
        s.path = path

    def __repr__(s):
        return 'FnItem(%s)' % s.path


class MutexV:
    __slots__ = ('cell', 'holder', 'label', 'uid')
    _n = 0

    def __init__(s, cell, label=None):
        s.cell, s.holder, s.label = cell, None, label
        MutexV._n += 1
        s.uid = MutexV._n


class Opaque:
    __slots__ = ('what',)

    def __init__(s, what):
        s.what = what

    def __repr__(s):
        return 'Opaque(%s)' % (s.what,)


class Uninit:
    def __repr__(s):
        return 'Uninit'


UNINIT = Uninit()


class Panic(Exception):
    """A Rust panic outcome (assert terminator, unwrap on None, panic!, index out of range ...)."""


class Infeasible(Exception):
    pass


class Unsupported(Exception):
    """A construct outside the closed model list: the run is inconclusive, never a pass."""


class Blocked(Exception):
    """The thread blocks forever (recv on an empty queue with no sender activity)."""


class Hang(Exception):
    """Self deadlock: lock on a mutex the running thread already holds."""


def is_sym(v):
    return isinstance(v, z3.ExprRef)


def some(v):
    return Adt('Option', 1, [v])


def NONE():
    return Adt('Option', 0, [])


def OK(v=()):
    return Adt('Result', 0, [v])


def ERR(e):
    return Adt('Result', 1, [e])


# a MIR `copy` of these is a pointer copy (Box is copied bitwise before its raw parts are projected), never a deep copy
SHARED_ADTS = {'Arc', 'Rc', 'Sender', 'Receiver', 'SyncSender', 'TimerGuard', 'Timer', 'Box'}


def deep_copy(v):
    if isinstance(v, Adt):
        if v.name in SHARED_ADTS:
            return Adt(v.name, v.variant, list(v.fields))
        return Adt(v.name, v.variant, [deep_copy(x) for x in v.fields])
    if isinstance(v, VecV):
        return VecV([deep_copy(x) for x in v.items])
    if isinstance(v, list):
        return [deep_copy(x) for x in v]
    if isinstance(v, StrV):
        return StrV(v.chars)
    if isinstance(v, MapV):
        m = MapV()
        m.items = [[deep_copy(k), deep_copy(x)] for k, x in v.items]
        return m
    if isinstance(v, Cell):
        return Cell(deep_copy(v.v))
    if isinstance(v, Closure):
        return Closure(v.ty, [deep_copy(x) for x in v.ups])
    return v
