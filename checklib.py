"""Check framework: runs the harnesses of one property with engine M (mirsym) and/or K (Kani), validates the engine
differentially against the native build, replays every counterexample natively, applies the known-findings file,
writes the evidence file and decides the exit code.

exit 0: property held on everything explored (KNOWN-FINDING lines allowed)
exit 1: a violation that reproduces natively  -> line `VIOLATION property=<id> replay=<path>`
exit 2: inconclusive (unsupported construct, budget, engine/native disagreement, non-reproducing model)"""
import os, sys, json, time, re, subprocess, hashlib, random, collections

VERIF = os.path.dirname(os.path.abspath(__file__))
sys.path.insert(0, VERIF)
from mirsym import build, driver  # noqa: E402

REPLAYS = os.path.join(VERIF, 'replays')
EVIDENCE = os.path.join(VERIF, 'evidence')
KF_FILE = os.path.join(VERIF, 'known_findings.txt')


def log(*a):
    print(*a, flush=True)


# ---------------------------------------------------------------------------------------------- known findings
def load_known_findings():
    """lines:  open: property=C05 kf=5001 name=<slug> <description>
               fixed: property=C05 <commit> <what failed>"""
    out = {}
    if not os.path.exists(KF_FILE):
        return out
    for line in open(KF_FILE):
        line = line.strip()
        if not line or line.startswith('#'):
            continue
        m = re.match(r'open:\s+property=(C\d+)\s+kf=(\d+)\s+name=(\S+)\s*(.*)$', line)
        if m:
            out[int(m.group(2))] = {'property': m.group(1), 'name': m.group(3), 'desc': m.group(4)}
    return out


# ---------------------------------------------------------------------------------------------- native replay
def inputs_arg(inputs):
    parts = []
    for i in inputs:
        v = i['value']
        if isinstance(v, bool):
            v = 1 if v else 0
        if i['type'] == 'f64' and isinstance(v, float):
            import struct
            v = struct.unpack('<Q', struct.pack('<d', v))[0]
        parts.append('%s:%s' % (i['type'], v))
    return ','.join(parts)


def native_run(harness, inputs, profile='dev', timeout=20):
    binp = build.native_replay_bin(profile, log)
    try:
        p = subprocess.run([binp, harness, inputs_arg(inputs)], stdout=subprocess.PIPE, stderr=subprocess.PIPE, timeout=timeout)
        out = p.stdout.decode('utf-8', 'replace')
        rc = p.returncode
        hung = False
    except subprocess.TimeoutExpired as e:
        out = (e.stdout or b'').decode('utf-8', 'replace')
        rc, hung = -1, True
    res = {'checks': {}, 'obs': [], 'panic': False, 'hang': hung, 'rc': rc, 'raw': out[-2000:], 'done': False, 'kf': {}}
    for line in out.split('\n'):
        m = re.match(r'CHECK (\d+) ([01])(?: KF (\d+) ([01]))?$', line)
        if m:
            cid = int(m.group(1))
            ok = m.group(2) == '1'
            res['checks'][cid] = res['checks'].get(cid, True) and ok
            if m.group(3):
                res['kf'][cid] = (int(m.group(3)), m.group(4) == '1')
            continue
        m = re.match(r'OBS (\d+) (\d+)$', line)
        if m:
            res['obs'].append((int(m.group(1)), int(m.group(2))))
            continue
        if line.startswith('PANIC'):
            res['panic'] = True
        if line.startswith('DONE'):
            res['done'] = True
        if line.startswith('REPLAY-EXHAUSTED') or line.startswith('REPLAY-TYPE-MISMATCH'):
            res['mismatch'] = line
    if rc not in (0, -1) and not res['done']:
        res['panic'] = True     # abort / stack overflow / signal
        res['abort'] = True
    return res


def native_confirms(v, harness, profiles=('dev', 'release')):
    """does the native build violate what the engine says it violates? returns (confirmed, details)"""
    details = {}
    for prof in profiles:
        r = native_run(harness, v['inputs'], prof)
        details[prof] = {'panic': r['panic'], 'hang': r['hang'], 'failed': [c for c, ok in r['checks'].items() if not ok], 'mismatch': r.get('mismatch')}
        kind = v.get('kind', 'check')
        if kind == 'check':
            if r['checks'].get(v['check']) is False:
                return True, details
            if r['panic'] or r['hang']:
                # the native run did not even reach the obligation: still a violation of the property (crash), report it
                details[prof]['note'] = 'native run panicked/hung before the obligation'
                return True, details
        elif kind == 'panic':
            if r['panic']:
                return True, details
        elif kind == 'hang':
            if r['hang']:
                return True, details
            if r['panic']:
                # the engine predicts non-termination; natively the run ends in a crash before the time limit (e.g. an endless
                # loop that starts sessions until thread creation fails): the session is lost either way
                details[prof]['note'] = 'predicted non-termination ends in a native panic'
                return True, details
    return False, details


def write_replay(prop, harness, v, engine, mir_hash):
    os.makedirs(REPLAYS, exist_ok=True)
    body = {'property': prop, 'harness': harness, 'engine': engine, 'inputs': v['inputs'],
            'expect': {'check': v['check'], 'kind': v.get('kind', 'check'), 'msg': v.get('msg', '')}, 'mir_hash': mir_hash}
    h = hashlib.sha256(json.dumps(body, sort_keys=True).encode()).hexdigest()[:8]
    path = os.path.join(REPLAYS, '%s-%s-%s.json' % (prop, harness, h))
    json.dump(body, open(path, 'w'), indent=1)
    return path


def replay_file(path):
    body = json.load(open(path))
    log('replaying %s harness %s' % (body['property'], body['harness']))
    ok = True
    for prof in ('dev', 'release'):
        r = native_run(body['harness'], body['inputs'], prof)
        failed = [c for c, g in r['checks'].items() if not g]
        log('  [%s] panic=%s hang=%s failed checks=%s' % (prof, r['panic'], r['hang'], failed))
        if failed or r['panic'] or r['hang']:
            ok = False
    if not ok:
        log('VIOLATION property=%s replay=%s' % (body['property'], path))
        return 1
    log('replay does not violate the property on the current tree')
    return 0


# ---------------------------------------------------------------------------------------------- the check
class Check:
    def __init__(s, prop, tier, seed, level, design_ref=''):
        s.prop, s.tier, s.seed, s.level = prop, tier, seed, level
        s.t0 = time.time()
        s.known = load_known_findings()
        s.violations = []        # confirmed: (harness, path)
        s.inconclusive = []      # strings
        s.kf_lines = []
        s.kf_seen = {}
        s.harness_reports = []
        s.assumptions = []
        s.outside = []
        s.P = None
        s.functions = collections.Counter()
        s.natives = collections.Counter()
        s.diff_runs = 0
        s.samples = []
        s.tot = collections.Counter()
        s.rng = random.Random(seed)
        s.kani_reports = []

    def program(s):
        if s.P is None:
            try:
                s.P = build.load_program(log)
            except build.BuildError as e:
                log('BUILD FAILED:\n%s' % e)
                s.inconclusive.append('build failed: %s' % str(e)[:300])
                s.finish()
        return s.P

    # ------------------------------------------------------------------ engine M
    def run_m(s, harness, expect_checks=(), expect_cover=(), allow_blocked=False, time_cap=None, max_paths=None, env=None,
              diff_samples=3, bounds=None, workers=None, step_budget=None, allow_panic=False, only=None):
        """only: obligation ids that belong to this property (shared harnesses discharge obligations of several properties;
        the others are judged by their own property's check); panics and hangs always count"""
        P = s.program()
        cfg = {'sample_inputs': True, 'env': env or {}}
        if env and env.get('collect_locks'):
            cfg['collect_locks'] = True
        if step_budget:
            cfg['step_budget'] = step_budget
        t = time.time()
        r = s.explore_cached(P, harness, cfg, time_cap, max_paths, workers)
        rep = {'harness': harness, 'engine': 'mirsym', 'paths': r.paths, 'outcomes': dict(r.outcomes), 'mir_statements': r.steps,
               'solver_queries': r.queries, 'solver_s': round(r.solver_s, 3), 'interp_s': round(r.interp_s, 3), 'wall_s': round(time.time() - t, 2),
               'obligations_discharged': dict((str(k), v) for k, v in r.checked.items()), 'vacuity_witnesses': sorted(r.covered),
               'bounds': bounds or {}, 'truncated': r.truncated,
               'reused_result_of_identical_source_hash': bool(getattr(r, 'reused', False))}
        s.harness_reports.append(rep)
        s.functions.update(r.calls)
        s.natives.update(r.natives)
        s.tot['paths'] += r.paths
        s.tot['queries'] += r.queries
        s.tot['steps'] += r.steps
        s.tot['solver_s'] += r.solver_s
        s.tot['paths_with_obligation'] += r.outcomes.get('ok', 0) + (r.outcomes.get('blocked', 0) if allow_blocked else 0)
        for smp in r.samples[:2]:
            s.samples.append({'harness': harness, 'path_decisions': smp['decisions'], 'inputs_of_this_class': [(i['tag'], i['type'], i['value']) for i in smp['inputs']][:24], 'outcome': smp['outcome']})
        log('[M] %-28s paths=%d %s stmts=%d queries=%d wall=%.1fs' % (harness, r.paths, dict(r.outcomes), r.steps, r.queries, time.time() - t))
        # inconclusive outcomes
        for msg, c in r.unsupported.items():
            s.inconclusive.append('%s: unsupported x%d: %s' % (harness, c, msg[:400]))
        if r.truncated:
            s.inconclusive.append('%s: exploration truncated by path/time cap' % harness)
        if r.outcomes.get('blocked') and not allow_blocked:
            s.inconclusive.append('%s: %d paths ended blocked' % (harness, r.outcomes['blocked']))
        # vacuity
        for c in expect_checks:
            if not r.checked.get(c):
                s.inconclusive.append('%s: obligation %s never reached (vacuous harness?)' % (harness, c))
        for c in expect_cover:
            if c not in r.covered:
                s.inconclusive.append('%s: vacuity witness %s not reached' % (harness, c))
        # differential validation on representative inputs of explored paths
        if diff_samples and not r.unsupported:
            s.differential(P, harness, r, diff_samples, env)
        # violations: one per (check id), natively replayed
        mine = (lambda v: only is None or v['check'] in only or v.get('kind') in ('panic', 'hang'))
        s.judge(harness, [v for v in r.violations if mine(v)], 'mirsym', allow_panic)
        s.judge_known(harness, [v for v in r.known_hits if mine(v)], 'mirsym')
        return r

    def explore_cached(s, P, harness, cfg, time_cap, max_paths, workers):
        """Several properties share harness runs (e.g. C01/C02/C06/C07 all read the statechart step harnesses).  The exploration
        result is a pure function of (MIR hash of /repo + harness sources, harness, configuration), so it is stored under that key and
        reused by the other checks of the same source state; any edit to /repo or the harness changes the hash and forces a new run."""
        import pickle
        eh = hashlib.sha256()
        for fn in sorted(os.listdir(os.path.join(VERIF, 'mirsym'))):
            if fn.endswith('.py'):
                eh.update(open(os.path.join(VERIF, 'mirsym', fn), 'rb').read())
        key = hashlib.sha256(json.dumps([eh.hexdigest(), P.mir_hash, harness, cfg.get('env'), cfg.get('step_budget'), time_cap, max_paths], sort_keys=True, default=str).encode()).hexdigest()[:20]
        d = os.path.join(VERIF, '.cache', 'results')
        os.makedirs(d, exist_ok=True)
        path = os.path.join(d, '%s-%s.pkl' % (harness, key))
        if os.path.exists(path) and os.environ.get('VERIF_NO_RESULT_CACHE') != '1':
            try:
                r = pickle.load(open(path, 'rb'))
                r.reused = True
                return r
            except Exception:
                pass
        r = driver.explore(P, harness, cfg=cfg, time_cap=time_cap, max_paths=max_paths, workers=workers)
        r.reused = False
        if r.conclusive:
            tmp = path + '.%d' % os.getpid()
            pickle.dump(r, open(tmp, 'wb'))
            os.replace(tmp, path)
            # keep the cache small: drop results of older source states
            for f in os.listdir(d):
                fp = os.path.join(d, f)
                if time.time() - os.path.getmtime(fp) > 6 * 3600:
                    try:
                        os.remove(fp)
                    except OSError:
                        pass
        return r

    def differential(s, P, harness, r, n, env):
        pool = list(r.samples)
        s.rng.shuffle(pool)
        for smp in pool[:n]:
            inputs = smp['inputs']
            vals = [i['value'] for i in inputs]
            rc = driver.explore(P, harness, cfg={'concrete': vals, 'env': env or {}}, workers=1)
            nat = native_run(harness, inputs, 'dev')
            s.diff_runs += 1
            m_obs = [(t, v) for t, v in rc.obs if isinstance(v, int)]
            m_failed = sorted(set(v['check'] for v in rc.violations if v.get('kind', 'check') == 'check') | set(v['check'] for v in rc.known_hits if v.get('kind') == 'check'))
            n_failed = sorted(c for c, ok in nat['checks'].items() if not ok)
            m_abn = bool(rc.outcomes.get('panic') or rc.outcomes.get('hang'))
            n_abn = nat['panic'] or nat['hang']
            if rc.unsupported:
                s.inconclusive.append('%s: concrete re-run unsupported: %s' % (harness, list(rc.unsupported)[0][:200]))
                continue
            if m_abn != n_abn or (not m_abn and (m_failed != n_failed or [list(x) for x in m_obs] != [list(x) for x in nat['obs']])):
                s.inconclusive.append('%s: DIFFERENTIAL MISMATCH engine vs native on inputs %s: M failed=%s obs=%s abnormal=%s | native failed=%s obs=%s abnormal=%s'
                                      % (harness, inputs_arg(inputs)[:300], m_failed, m_obs[:8], m_abn, n_failed, nat['obs'][:8], n_abn))

    def judge(s, harness, violations, engine, allow_panic=False):
        seen = set()
        for v in violations:
            key = (v['check'], v.get('kind'))
            if key in seen:
                continue
            seen.add(key)
            if v['inputs'] is None:
                s.inconclusive.append('%s: %s without model: %s' % (harness, v['kind'], v.get('msg')))
                continue
            ok, details = native_confirms(v, harness)
            path = write_replay(s.prop, harness, v, engine, getattr(s.P, 'mir_hash', ''))
            if ok:
                s.violations.append((harness, path, v['check'], v.get('msg', '')))
                log('  counterexample for obligation %s (%s) reproduces natively: %s' % (v['check'], v.get('msg', ''), inputs_arg(v['inputs'])[:200]))
            else:
                s.inconclusive.append('%s: engine model for obligation %s does not reproduce natively (%s) inputs=%s' % (harness, v['check'], details, inputs_arg(v['inputs'])[:200]))

    def judge_known(s, harness, hits, engine):
        seen = set()
        for v in hits:
            kf = v['kf']
            if kf in seen:
                continue
            seen.add(kf)
            if kf not in s.known or s.known[kf]['property'] != s.prop:
                # the harness marks the region, but the finding is not (or no longer) listed as open: a plain violation
                s.judge(harness, [dict(v, kf=None)], engine)
                continue
            ok, details = native_confirms(v, harness)
            if ok:
                if kf not in s.kf_seen:
                    s.kf_seen[kf] = inputs_arg(v['inputs'])[:160]
                    s.kf_lines.append('KNOWN-FINDING: property=%s %s (%s) witness: %s' % (s.prop, s.known[kf]['name'], s.known[kf]['desc'], inputs_arg(v['inputs'])[:160]))
            else:
                s.inconclusive.append('%s: known finding %s: engine witness does not reproduce natively (%s)' % (harness, kf, details))

    # ------------------------------------------------------------------ engine K (Kani)
    def run_kani(s, kharness, native_harness, time_cap=600, bounds=None):
        from kanilib import run_kani
        rep = run_kani(s, kharness, native_harness, None, time_cap, (), bounds)
        s.kani_reports.append(rep)
        return rep

    # ------------------------------------------------------------------ evidence + exit
    def finish(s, extra_cov=None):
        wall = time.time() - s.t0
        for l in s.kf_lines:
            log(l)
        cov = {
            'evaluations': max(1, int(s.tot['queries']) + sum(r.get('solver_queries', 0) for r in s.kani_reports)),
            'distinct_nontrivial': int(s.tot['paths_with_obligation']) + sum(r.get('checks_passed', 0) for r in s.kani_reports),
            'rule': 'one case = one feasible path of the real code under symbolic inputs (an equivalence class of concrete inputs, often 2^32..2^64 of them); '
                    'non-trivial = the path reaches at least one proof obligation, which z3 discharges for all inputs following that path; Kani harnesses count their checked properties',
            'samples': s.samples[:6] or [{'note': 'no path sample recorded'}],
            'states': max(1, int(s.tot['paths'])),
            'transitions': max(1, int(s.tot['steps'])),
            'traces_validated_against_impl': s.diff_runs,
            'engine': 'mirsym (MIR symbolic execution + z3)' + (' + Kani/CBMC' if s.kani_reports else ''),
            'harnesses': s.harness_reports + s.kani_reports,
            'functions_encoded': sorted(k for k in s.functions if not k.startswith('vnd_'))[:400],
            'functions_encoded_count': len(s.functions),
            'env_models_used': sorted(s.natives)[:300],
            'solver_queries': int(s.tot['queries']),
            'solver_s': round(s.tot['solver_s'], 2),
            'mir_statements_interpreted': int(s.tot['steps']),
            'differential_runs': s.diff_runs,
            'outside_claim': s.outside,
            'known_findings': [{'kf': k, 'name': s.known[k]['name'], 'witness': w} for k, w in s.kf_seen.items()],
            'inconclusive': s.inconclusive[:20],
            'mir_hash': getattr(s.P, 'mir_hash', None),
            'exhaustive': False,
        }
        if extra_cov:
            cov.update(extra_cov)
        if getattr(s, 'extra_cov', None):
            cov.update(s.extra_cov)
        ev = {'property_id': s.prop, 'tier': s.tier, 'seed': s.seed, 'level': s.level, 'coverage': cov,
              'assumptions': s.assumptions, 'wall_s': round(wall, 2), 'violations': len(s.violations)}
        os.makedirs(EVIDENCE, exist_ok=True)
        json.dump(ev, open(os.path.join(EVIDENCE, '%s.json' % s.prop), 'w'), indent=1, default=str)
        if s.violations:
            for h, path, cid, msg in s.violations:
                log('VIOLATION property=%s replay=%s' % (s.prop, path))
            log('[%s] FAILED: %d violation(s), wall %.1fs' % (s.prop, len(s.violations), wall))
            sys.exit(1)
        if s.inconclusive:
            for m in s.inconclusive[:12]:
                log('INCONCLUSIVE: ' + m)
            log('[%s] inconclusive (exit 2), wall %.1fs' % (s.prop, wall))
            sys.exit(2)
        log('[%s] held on everything explored: %d paths, %d solver queries, wall %.1fs' % (s.prop, s.tot['paths'], s.tot['queries'], wall))
        sys.exit(0)
