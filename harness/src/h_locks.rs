//! C17: lock-order scenarios.  Each thread role of the platform (host starting a session, a session thread, a session executing
//! <send>, the timer thread firing a delayed send, the host sending / shutting down, a session exiting with children, a session
//! executing <invoke>) is executed
//! in turn under a thread label; engine M records for every acquisition the set of locks held (holder-tracking mutex model).
//! The cycle query over the recorded edges is done by props/c17.py.
use crate::h_plat::*;
use crate::vnd::*;
use rufsm::actions::ActionWrapper;
use rufsm::datamodel::expression_engine::RFsmExpressionDatamodel;
use rufsm::datamodel::*;
use rufsm::executable_content::*;
use rufsm::fsm::*;

pub fn run(name: &str) -> bool {
    match name {
        "h_c17_scenario" => h_c17_scenario(),
        _ => return false,
    }
    true
}

fn small_fsm() -> Box<Fsm> {
    let mut fsm = Box::new(Fsm::new());
    fsm.datamodel = "null".to_string();
    fsm.pseudo_root = 1;
    let mut s1 = State::new("root"); s1.id = 1; s1.doc_id = 1; s1.states = vec![2]; s1.initial = 11;
    let mut s2 = State::new("a"); s2.id = 2; s2.doc_id = 2; s2.parent = 1;
    fsm.states.push(s1);
    fsm.states.push(s2);
    let mut t = Transition::new(); t.id = 11; t.source = 1; t.target.push(2);
    fsm.transitions.insert(11, t);
    fsm
}

pub fn h_c17_scenario() {
    let t = topo(true, true);
    t.g[0].lock().unwrap().data.set_undefined("a".to_string(), Data::Integer(1));
    // ---- T1: the host application starts a session
    vnd_thread(1);
    let session = start_fsm_with_data_and_finish_mode(small_fsm(), ActionWrapper::new(), Box::new(t.ex.clone()), &[], FinishMode::DISPOSE);
    // ---- T2: that session's thread: datamodel creation, interpret(), main loop until it waits for events
    vnd_thread(2);
    vnd_run_spawned(0);
    // ---- T3: session 1 executes <send> (target chosen by the solver)
    vnd_thread(3);
    let tix = vnd_conc(vnd_range(0, 5, 1), 5) as usize;
    let fsm1 = Fsm::new();
    let mut dm = RFsmExpressionDatamodel::new(t.g[0].clone());
    let targets = ["", "#_internal", "#_scxml_2", "#_scxml_3", "#_parent", "#_child"];
    let mut sp = SendParameters::new();
    sp.name = "sid1".to_string();
    sp.event = Data::String("ev".to_string());
    sp.target = Data::String(targets[tix].to_string());
    let mut p = Parameter::new(); p.name = "p1".to_string(); p.expr = "a".to_string();
    sp.params = Some(vec![p]);
    let ok = sp.execute(&mut dm, &fsm1);
    // a delayed send of session 1 ...
    let mut sp2 = SendParameters::new();
    sp2.name = "sid2".to_string();
    sp2.event = Data::String("later".to_string());
    sp2.target = Data::String("#_scxml_2".to_string());
    sp2.delay_ms = 50;
    let ok2 = sp2.execute(&mut dm, &fsm1);
    // ---- T4: ... fired by the timer thread
    vnd_thread(4);
    let _ = vnd_timer_fire(0);
    // ---- T5: the host sends to a session and shuts the executor down
    vnd_thread(5);
    let r = t.ex.send_to_session(2, Event::new_simple("hello"));
    let _ = session.sender.send(Box::new(Event::new_simple(EVENT_CANCEL_SESSION)));
    // ---- T6: session 1 leaves an invoking state / terminates: cancel events go to its children
    vnd_thread(6);
    let mut f6 = Fsm::new();
    f6.vh_cancelInvoke(&mut dm, &"child".to_string(), 3);
    // ---- T8: the thread of session 1 executes an <invoke> with inline content: loads, parses and starts a child session
    vnd_thread(8);
    let mut inv = Invoke::new();
    inv.invoke_id = "kid".to_string();
    inv.doc_id = 77;
    inv.parent_state_name = "a".to_string();
    inv.type_name = Data::String("scxml".to_string());
    inv.content = Some(CommonContent { content: Some("<scxml version=\"1.0\" datamodel=\"null\" initial=\"c\"><state id=\"c\"/></scxml>".to_string()), content_expr: None });
    let mut f8 = Fsm::new();
    f8.vh_invoke(&mut dm, 2, &inv);
    // ---- T9: the thread of session 1 terminates while a child is still invoked: exitInterpreter cancels the children
    vnd_thread(9);
    let mut f9 = Fsm::new();
    f9.vh_exitInterpreter(&mut dm);
    // ---- T7: host shutdown
    vnd_thread(7);
    let mut ex2 = t.ex.clone();
    ex2.shutdown();
    vnd_cover(1701);
    vnd_check(1701, ok && ok2 && r.is_ok());
    vnd_obs(1, if ok { 1 } else { 0 });
}
