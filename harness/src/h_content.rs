//! C08: executable content — order, if/elseif/else, foreach, assign, raise, log, script and SCXML error semantics,
//! run by the real RFsmExpressionDatamodel::executeContent on blocks built from the real content structs.
use crate::vnd::*;
use rufsm::datamodel::expression_engine::RFsmExpressionDatamodel;
use rufsm::datamodel::*;
use rufsm::executable_content::*;
use rufsm::fsm::*;

pub fn run(name: &str) -> bool {
    match name {
        "h_c08_block" => h_c08_block(),
        _ => return false,
    }
    true
}

pub const KF_IF_COND_ERROR: u32 = 801;
pub const KF_FOREACH_NOT_ITERABLE: u32 = 802;

fn src(t: &str, id: usize) -> Data { Data::Source(SourceCode::new(t, id)) }

fn marker(ch: &str, id: usize) -> Box<dyn ExecutableContent> {
    let mut e = Expression::new();
    e.content = src(format!("log = log + '{}'", ch).as_str(), id);
    Box::new(e)
}

fn queue_names(g: &GlobalDataArc) -> Vec<String> {
    let gd = g.lock().unwrap();
    let mut v = Vec::new();
    let mut i = 0;
    while i < gd.vh_internal_queue_len() { v.push(gd.vh_internal_queue_get(i).name); i += 1; }
    v
}

fn get_str(g: &GlobalDataArc, name: &str) -> String {
    let gd = g.lock().unwrap();
    match gd.data.get(name) { Some(v) => v.lock().unwrap().to_string(), None => "<undefined>".to_string() }
}

/// block [marker a, X, marker z] where X is one element of every kind / error position; conditions and the foreach length are symbolic
pub fn h_c08_block() {
    let kind = vnd_conc(vnd_range(0, 16, 1), 16);
    let c1 = vnd_bool(2);
    let c2 = vnd_bool(3);
    let alen = vnd_conc(vnd_range(0, 3, 4), 3) as usize;
    let mut fsm = Fsm::new();
    let g = create_global_data_arc();
    {
        let mut gd = g.lock().unwrap();
        gd.data.set_undefined("log".to_string(), Data::String(String::new()));
        gd.data.set_undefined("c1".to_string(), Data::Boolean(c1));
        gd.data.set_undefined("c2".to_string(), Data::Boolean(c2));
        gd.data.set_undefined("x".to_string(), Data::Integer(1));
        let items = ["p", "q", "r"];
        let mut arr = Vec::new();
        let mut i = 0;
        while i < alen { arr.push(create_data_arc(Data::String(items[i].to_string()))); i += 1; }
        gd.data.set_undefined("arr".to_string(), Data::Array(arr));
    }
    let mut x: Vec<Box<dyn ExecutableContent>> = Vec::new();
    match kind {
        0 | 8 => {
            // if / elseif / else as the reader builds it: the else block holds the nested if
            let mut outer = If::new(src(if kind == 0 { "c1" } else { "nosuch" }, 10));
            outer.content = 2; outer.else_content = 3;
            fsm.executableContent.insert(2, vec![marker("b", 11)]);
            let mut inner = If::new(src("c2", 12));
            inner.content = 4; inner.else_content = 5;
            fsm.executableContent.insert(3, vec![Box::new(inner)]);
            fsm.executableContent.insert(4, vec![marker("c", 13)]);
            fsm.executableContent.insert(5, vec![marker("d", 14)]);
            x.push(Box::new(outer));
        }
        1 | 9 => {
            let mut f = ForEach::new();
            f.array = src("arr", 20); f.item = "it".to_string(); f.index = "ix".to_string(); f.content = 6;
            let mut body: Vec<Box<dyn ExecutableContent>> = Vec::new();
            let mut e = Expression::new(); e.content = src("log = log + it + ix", 21); body.push(Box::new(e));
            if kind == 9 {
                // the body fails on the second item
                let mut fail = If::new(src("ix == 1", 22)); fail.content = 7;
                let mut a = Assign::new(); a.location = src("undeclared", 23); a.expr = src("1", 24);
                fsm.executableContent.insert(7, vec![Box::new(a)]);
                body.push(Box::new(fail));
                body.push(marker("+", 25));
            }
            fsm.executableContent.insert(6, body);
            x.push(Box::new(f));
        }
        2 => { let mut a = Assign::new(); a.location = src("x", 30); a.expr = src("41 + 1", 31); x.push(Box::new(a)); }
        3 => { let mut a = Assign::new(); a.location = src("undeclared", 32); a.expr = src("1", 33); x.push(Box::new(a)); }
        4 => { let mut r = Raise::new(); r.event = "r1".to_string(); x.push(Box::new(r)); }
        5 => { x.push(Box::new(Log::new(&None, src("'m'", 40)))); }
        6 => { x.push(Box::new(Log::new(&None, src("nosuch + 1", 41)))); }
        7 => { let mut s = Script::new(); s.content.push(8); fsm.executableContent.insert(8, vec![marker("s", 50)]); x.push(Box::new(s)); }
        10 => { let mut f = ForEach::new(); f.array = src("x", 60); f.item = "it".to_string(); f.content = 6; fsm.executableContent.insert(6, vec![marker("!", 61)]); x.push(Box::new(f)); }
        11 => { let mut e = Expression::new(); e.content = src("x = ", 70); x.push(Box::new(e)); }
        15 => {
            // an error inside the branch that is taken (then / elseif / else) aborts the enclosing block as well
            let mut outer = If::new(src("c1", 10));
            outer.content = 2; outer.else_content = 3;
            let mut bad1 = Assign::new(); bad1.location = src("undeclared", 91); bad1.expr = src("1", 92);
            fsm.executableContent.insert(2, vec![marker("b", 11), Box::new(bad1), marker("B", 15)]);
            let mut inner = If::new(src("c2", 12));
            inner.content = 4; inner.else_content = 5;
            fsm.executableContent.insert(3, vec![Box::new(inner)]);
            let mut bad2 = Assign::new(); bad2.location = src("undeclared", 93); bad2.expr = src("1", 94);
            fsm.executableContent.insert(4, vec![marker("c", 13), Box::new(bad2), marker("C", 16)]);
            let mut bad3 = Assign::new(); bad3.location = src("undeclared", 95); bad3.expr = src("1", 96);
            fsm.executableContent.insert(5, vec![marker("d", 14), Box::new(bad3), marker("D", 17)]);
            x.push(Box::new(outer));
        }
        16 => {
            // the body reads the collection it iterates over
            let mut f = ForEach::new();
            f.array = src("arr", 20); f.item = "it".to_string(); f.index = "ix".to_string(); f.content = 6;
            let mut e = Expression::new(); e.content = src("log = log + it + arr[0]", 26);
            fsm.executableContent.insert(6, vec![Box::new(e)]);
            x.push(Box::new(f));
        }
        13 => { let mut f = ForEach::new(); f.array = src("nosuch", 62); f.item = "it".to_string(); f.content = 6; fsm.executableContent.insert(6, vec![marker("!", 63)]); x.push(Box::new(f)); }
        14 => { let mut c = Cancel::new(); c.send_id_expr = src("nosuch", 90); x.push(Box::new(c)); }
        _ => { let mut a = Assign::new(); a.location = src("x", 80); a.expr = src("nosuch", 81); x.push(Box::new(a)); }
    }
    let mut main: Vec<Box<dyn ExecutableContent>> = vec![marker("a", 1)];
    for e in x { main.push(e); }
    main.push(marker("z", 2));
    fsm.executableContent.insert(1, main);
    let mut dm = RFsmExpressionDatamodel::new(g.clone());

    // ---- the real code
    let ret = dm.executeContent(&fsm, 1);

    // ---- expectation (SCXML semantics of the property statement)
    let mut want = String::from("a");
    let mut errors = 0;
    let mut raised = 0;
    let mut aborted = false;
    match kind {
        0 => { want.push_str(if c1 { "b" } else if c2 { "c" } else { "d" }); }
        8 => { errors = 1; want.push_str(if c2 { "c" } else { "d" }); }
        1 => { let items = ["p0", "q1", "r2"]; let mut i = 0; while i < alen { want.push_str(items[i]); i += 1; } }
        15 => { errors = 1; aborted = true; want.push_str(if c1 { "b" } else if c2 { "c" } else { "d" }); }
        16 => { let items = ["p", "q", "r"]; let mut i = 0; while i < alen { want.push_str(items[i]); want.push_str("p"); i += 1; } }
        9 => { if alen >= 1 { want.push_str("p0+"); } if alen >= 2 { want.push_str("q1"); errors = 1; aborted = true; } }
        2 | 5 | 7 => { if kind == 7 { want.push_str("s"); } }
        3 | 6 | 11 | 12 => { errors = 1; aborted = true; }
        4 => { raised = 1; }
        _ => { errors = 1; aborted = true; }      // 10: foreach over a non-collection, 13: foreach whose array expression fails, 14: cancel whose sendidexpr fails
    }
    if !aborted { want.push_str("z"); }
    let got = get_str(&g, "log");
    let q = queue_names(&g);
    let mut nerr = 0; let mut nraise = 0;
    for n in &q { if n == "error.execution" { nerr += 1; } else if n == "r1" { nraise += 1; } }
    vnd_cover(801);
    // order / branch selection / abort semantics
    vnd_check_kf(801, got == want, KF_FOREACH_NOT_ITERABLE, kind == 10);
    // error.execution exactly where the Recommendation asks for it
    vnd_check_kf(802, nerr == errors && nraise == raised && q.len() == errors + raised, KF_IF_COND_ERROR, kind == 8);
    vnd_check_kf(803, ret == !aborted, KF_FOREACH_NOT_ITERABLE, kind == 10);
    // <assign> changes declared locations only
    vnd_check(804, get_str(&g, "x") == if kind == 2 { "42" } else { "1" } && get_str(&g, "undeclared") == "<undefined>");
    vnd_obs(1, got.len() as u64);
    vnd_obs(2, q.len() as u64);
}
