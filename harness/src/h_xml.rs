//! C04: the XML reader builds a model that mirrors the document.  A statechart model (shape catalogue + symbolic transition)
//! is rendered as SCXML text, parsed by the real reader and compared, element by element, with the model it was rendered from;
//! a second harness does the same for executable-content nestings (if / elseif / else chains, foreach, send children).
#![cfg(feature = "xml")]
use crate::sc::*;
use crate::vnd::*;
use rufsm::datamodel::Data;
use rufsm::executable_content::*;
use rufsm::fsm::*;
use rufsm::scxml_reader::parse_from_xml;

macro_rules! harnesses {
    ($($name:ident => $body:expr),* $(,)?) => {
        pub fn run(name: &str) -> bool {
            match name { $( stringify!($name) => $name(), )* _ => return false, }
            true
        }
        $( pub fn $name() { $body } )*
    };
}

harnesses! {
    h_c04_struct => structure(0),
    h_c04_struct2 => structure(2),
    h_c04_lex => structure(1),
    h_c04_lex_all => structure(3),
    h_c04_content => content_nesting(),
    h_c04_descr => descriptors(),
    h_c04_elems => elements(),
}

// non-short-circuit on purpose: one solver term instead of one path per character class
pub const KF_LOG_WITHOUT_EXPR: u32 = 4001;
pub const KF_MARKUP_IN_TEXT: u32 = 4002;

fn alnum(c: char) -> bool { ((c >= 'a') & (c <= 'z')) | ((c >= 'A') & (c <= 'Z')) | ((c >= '0') & (c <= '9')) }

fn sname(i: u32) -> String { format!("s{}", i) }

fn names(sh: &Shape, v: &[u32]) -> String {
    let _ = sh;
    let mut s = String::new();
    for (k, x) in v.iter().enumerate() { if k > 0 { s.push(' '); } s.push_str(sname(*x).as_str()); }
    s
}

/// initial style: 0 = `initial` attribute, 1 = <initial> element, 2 = omitted (only when the default is the first child)
fn render_state(m: &Model, s: u32, init_style: u32, ev_suffix: &str, q: char, cc: (char, char), out: &mut String, order: &mut Vec<u32>) {
    order.push(s);
    let sh = &m.sh;
    let k = sh.kind[s as usize];
    let tag = if s == 1 { "scxml" } else if k == K_PAR { "parallel" } else if k == K_FINAL { "final" } else if sh.is_hist(s) { "history" } else { "state" };
    out.push_str(format!("<{} id={}{}{}", tag, q, sname(s), q).as_str());
    if s == 1 { out.push_str(format!(" version={}1.0{} datamodel={}null{} name={}doc{}", q, q, q, q, q, q).as_str()); if m.late { out.push_str(" binding=\"late\""); } }
    if sh.is_hist(s) { out.push_str(if k == K_HD { " type=\"deep\"" } else { " type=\"shallow\"" }); }
    let has_init = sh.compound(s) || (s == 1 && sh.children(1) != 0);
    let first_only = has_init && sh.init_targets(s) == vec![sh.first_child(s)] && sh.init_content[s as usize] == 0;
    let style = if !has_init { 9 } else if sh.init_content[s as usize] != 0 || (init_style == 1 && s != 1) { 1 } else if init_style == 2 && first_only { 2 } else { 0 };
    if style == 0 { out.push_str(format!(" initial={}{}{}", q, names(sh, &sh.init_targets(s)), q).as_str()); }
    out.push_str(">\n");
    if style == 1 {
        out.push_str(format!("<initial><transition target=\"{}\">", names(sh, &sh.init_targets(s))).as_str());
        if sh.init_content[s as usize] != 0 { out.push_str(format!("<raise event=\"i{}\"/>", sh.init_content[s as usize]).as_str()); }
        out.push_str("</transition></initial>\n");
    }
    if sh.is_hist(s) {
        out.push_str(format!("<transition target=\"{}\">", sname(sh.hdef[s as usize])).as_str());
        if sh.init_content[s as usize] != 0 { out.push_str(format!("<raise event=\"i{}\"/>", sh.init_content[s as usize]).as_str()); }
        out.push_str("</transition>\n");
    } else {
        if s != 1 { out.push_str(format!("<onentry><raise event=\"n{}\"/></onentry><!-- c -->\n<onexit><raise event=\"x{}\"/></onexit>\n", X_ENTRY + s, X_EXIT + s).as_str()); }
        let mut t = 0u32;
        while (t as usize) < m.ts.len() {
            let mt = &m.ts[t as usize];
            if mt.src == s {
                out.push_str("<transition");
                if mt.ev != 0 { out.push_str(format!(" event={}{}{} other.e", q, ev_name(mt.ev), if mt.ev == 3 { "" } else { ev_suffix }).as_str()); out.push(cc.0); out.push(q); }
                if mt.has_cond { out.push_str(format!(" cond=\"g{}", t).as_str()); out.push(cc.1); out.push_str(" &lt; 1\""); }
                if mt.ntgt > 0 { out.push_str(format!(" target=\"{}\"", names(sh, &mt.tgt[..mt.ntgt as usize])).as_str()); }
                if mt.internal { out.push_str(" type=\"internal\""); }
                out.push_str(format!("><raise event=\"t{}\"/></transition>\n", X_TRANS + t).as_str());
            }
            t += 1;
        }
        for c in sh.ordered(sh.children(s) | sh.hist_of(s)) { render_state(m, c, init_style, ev_suffix, q, cc, out, order); }
    }
    out.push_str(format!("</{}>\n", tag).as_str());
}

fn block_is_raise(fsm: &Fsm, id: u32, ev: &str) -> bool {
    match fsm.executableContent.get(&id) {
        None => false,
        Some(b) => b.len() == 1 && b[0].get_type() == TYPE_RAISE && match b[0].as_ref().as_any().downcast_ref::<Raise>() { Some(r) => r.event == ev, None => false },
    }
}

fn ids_of(fsm: &Fsm, v: &[u32]) -> Option<Vec<u32>> {
    let mut o = Vec::new();
    for x in v { match fsm.statesNames.get(&sname(*x)) { Some(i) => o.push(*i), None => return None } }
    Some(o)
}

/// states, kinds, nesting, document order, initial (three spellings), history, onentry/onexit, one symbolic transition
fn structure(mode: u32) {
    let ix = vnd_conc(vnd_range(0, NSHAPES - 1, 1), NSHAPES - 1);
    let sh = shape_by_index(ix);
    let n = sh.n as u32;
    // one ordinary transition: source, 0..2 targets (forward references arise when a target is declared later), type, event, cond
    // mode 0/2: every conformant transition (<= 1 / <= 2 targets), lexical choices derived from it;
    // mode 1: every lexical rendering of a target-less transition, with two arbitrary characters inside descriptor and condition
    let (mt, init_style, sfx, q, late, c1, c2);
    if mode == 1 || mode == 3 {
        // quick tier: four shapes (flat, parallel with history, deep nesting, history in parallel); thorough: all
        if mode == 1 { vnd_assume(ix == 0 || ix == 3 || ix == 8 || ix == 12); }
        mt = MT { src: 2, tgt: [0, 0], ntgt: 0, internal: false, ev: vnd_conc(vnd_range(0, 4, 7), 4), has_cond: vnd_bool(8) };
        init_style = vnd_conc(vnd_range(0, 2, 9), 2);
        sfx = vnd_conc(vnd_range(0, 2, 10), 2);
        q = if vnd_bool(11) { '"' } else { '\'' };
        late = vnd_bool(12);
        c1 = vnd_char(13);
        c2 = vnd_char(14);
        vnd_assume(alnum(c1) & alnum(c2));
    } else {
        let maxt = if mode == 2 { 2 } else { 1 };
        let src = vnd_conc(vnd_range(2, n, 2), n);
        let ntgt = vnd_conc(vnd_range(0, maxt, 3), maxt);
        let t0 = if ntgt >= 1 { vnd_conc(vnd_range(2, n, 4), n) } else { 0 };
        let t1 = if ntgt >= 2 { vnd_conc(vnd_range(2, n, 5), n) } else { 0 };
        let internal = vnd_bool(6);
        mt = MT { src, tgt: [t0, t1], ntgt, internal, ev: 1 + (src + t0) % 4, has_cond: (src + t1) % 2 == 0 };
        init_style = (src + t0 + t1) % 3;
        sfx = t0 % 3;
        q = if internal { '"' } else { '\'' };
        late = src % 2 == 1;
        c1 = 'x';
        c2 = 'y';
    }
    vnd_assume(conformant_t(&sh, &mt));
    let suffix = match sfx { 0 => "", 1 => ".", _ => ".*" };
    let m = Model { sh, ts: vec![mt], late };
    let mut text = String::from("<?xml version=\"1.0\"?>\n");
    // position of every state in the rendered text (pre-order of the tree)
    let mut order: Vec<u32> = Vec::new();
    render_state(&m, 1, init_style, suffix, q, (c1, c2), &mut text, &mut order);
    let pos = |x: u32| -> usize { let mut i = 0; while i < order.len() { if order[i] == x { return i; } i += 1; } 999 };

    let res = parse_from_xml(text);
    vnd_cover(401);
    vnd_check(401, res.is_ok());
    let fsm = res.unwrap();
    let sh = &m.sh;
    vnd_check(402, fsm.states.len() == sh.n && fsm.name == "doc" && fsm.datamodel == "null" && (fsm.binding == BindingType::Late) == m.late);
    let root = fsm.statesNames.get("s1").cloned().unwrap_or(0);
    vnd_check(403, root != 0 && fsm.pseudo_root == root);
    let mut ok_nest = true; let mut ok_kind = true; let mut ok_doc = true; let mut ok_init = true; let mut ok_hist = true; let mut ok_body = true; let mut ok_trans = true;
    let mut s = 1u32;
    while s <= n {
        match fsm.statesNames.get(&sname(s)) {
            None => { ok_nest = false; }
            Some(id) => {
                let st = fsm.get_state_by_id(*id);
                let k = sh.kind[s as usize];
                // nesting: parent, children in document order, history list
                let want_parent = if s == 1 { Some(vec![]) } else { ids_of(&fsm, &[sh.parent[s as usize]]) };
                if st.id != *id || want_parent.is_none() || (s == 1 && st.parent != 0) || (s != 1 && st.parent != want_parent.unwrap()[0]) { ok_nest = false; }
                if Some(st.states.clone()) != ids_of(&fsm, &sh.ordered(sh.children(s))) { ok_nest = false; }
                let mut hl = Vec::new(); for h in st.history.iterator() { hl.push(*h); }
                if Some(hl) != ids_of(&fsm, &sh.ordered(sh.hist_of(s))) { ok_hist = false; }
                // kinds
                if st.is_parallel != (k == K_PAR) || st.is_final != (k == K_FINAL) { ok_kind = false; }
                let ht = if k == K_HS { 1 } else if k == K_HD { 2 } else { 0 };
                if st.history_type.ordinal() != ht { ok_kind = false; }
                // document order
                let mut o = 1u32;
                while o <= n { if o != s { if let Some(oid) = fsm.statesNames.get(&sname(o)) { let os = fsm.get_state_by_id(*oid); if (pos(s) < pos(o)) != (st.doc_id < os.doc_id) { ok_doc = false; } } } o += 1; }
                // initial
                if sh.compound(s) || (s == 1 && sh.children(1) != 0) {
                    if st.initial == 0 { ok_init = false; } else {
                        let it = fsm.get_transition_by_id(st.initial);
                        if Some(it.target.clone()) != ids_of(&fsm, &sh.init_targets(s)) || it.source != *id { ok_init = false; }
                        let want_c = sh.init_content[s as usize];
                        if want_c != 0 && !block_is_raise(&fsm, it.content, format!("i{}", want_c).as_str()) { ok_init = false; }
                    }
                } else if st.initial != 0 && !sh.is_hist(s) { ok_init = false; }
                if sh.is_hist(s) {
                    if st.transitions.size() != 1 { ok_hist = false; } else {
                        let ht = fsm.get_transition_by_id(*st.transitions.head());
                        if Some(ht.target.clone()) != ids_of(&fsm, &[sh.hdef[s as usize]]) { ok_hist = false; }
                        let want_c = sh.init_content[s as usize];
                        if want_c != 0 && !block_is_raise(&fsm, ht.content, format!("i{}", want_c).as_str()) { ok_hist = false; }
                    }
                } else {
                    // onentry / onexit bodies
                    if s != 1 {
                        if st.onentry.len() != 1 || !block_is_raise(&fsm, st.onentry[0], format!("n{}", X_ENTRY + s).as_str()) { ok_body = false; }
                        if st.onexit.len() != 1 || !block_is_raise(&fsm, st.onexit[0], format!("x{}", X_EXIT + s).as_str()) { ok_body = false; }
                    } else if !st.onentry.is_empty() || !st.onexit.is_empty() { ok_body = false; }
                    // the ordinary transition
                    let want_n = if m.ts[0].src == s { 1 } else { 0 };
                    if st.transitions.size() != want_n { ok_trans = false; } else if want_n == 1 {
                        let t = fsm.get_transition_by_id(*st.transitions.head());
                        let mt = &m.ts[0];
                        let want_ev: Vec<String> = if mt.ev == 0 { vec![] } else { vec![ev_name(mt.ev).to_string(), { let mut o = "other.e".to_string(); o.push(c1); o }] };
                        if t.events != want_ev || t.wildcard != (mt.ev == 3) || t.source != *id { ok_trans = false; }
                        if Some(t.target.clone()) != ids_of(&fsm, &mt.tgt[..mt.ntgt as usize]) { ok_trans = false; }
                        if (t.transition_type == TransitionType::Internal) != mt.internal { ok_trans = false; }
                        let cond_ok = match &t.cond { Data::Source(c) => mt.has_cond && c.source == { let mut o = "g0".to_string(); o.push(c2); o.push_str(" < 1"); o }, Data::Null() => !mt.has_cond, _ => false };
                        if !cond_ok || !block_is_raise(&fsm, t.content, format!("t{}", X_TRANS).as_str()) { ok_trans = false; }
                    }
                }
            }
        }
        s += 1;
    }
    vnd_check(404, ok_nest);
    vnd_check(405, ok_kind);
    vnd_check(406, ok_doc);
    vnd_check(407, ok_init);
    vnd_check(408, ok_hist);
    vnd_check(409, ok_body);
    vnd_check(410, ok_trans);
    vnd_obs(1, fsm.transitions.len() as u64);
}

fn raise_name(e: &Box<dyn ExecutableContent>) -> String {
    match e.as_ref().as_any().downcast_ref::<Raise>() { Some(r) => r.event.clone(), None => "?".to_string() }
}

/// walks an if-chain: returns the branch marker names in order: conditions "c<i>" with their first raise, then the else raise
fn if_chain(fsm: &Fsm, e: &Box<dyn ExecutableContent>, out: &mut Vec<String>, depth: u32) {
    if depth > 8 { out.push("<too deep>".to_string()); return; }
    match e.as_ref().as_any().downcast_ref::<If>() {
        None => out.push(format!("<not if:{}>", e.get_type())),
        Some(i) => {
            let cond = match &i.condition { Data::Source(c) => c.source.clone(), _ => "<nocond>".to_string() };
            let body = match fsm.executableContent.get(&i.content) { Some(b) => { let mut s = String::new(); for x in b { s.push_str(raise_name(x).as_str()); s.push(','); } s } None => "<none>".to_string() };
            out.push(format!("{}:{}", cond, body));
            if i.else_content != 0 {
                match fsm.executableContent.get(&i.else_content) {
                    None => out.push("<missing else block>".to_string()),
                    Some(b) => {
                        if b.len() == 1 && b[0].get_type() == TYPE_IF { if_chain(fsm, &b[0], out, depth + 1); }
                        else { let mut s = String::from("else:"); for x in b { s.push_str(raise_name(x).as_str()); s.push(','); } out.push(s); }
                    }
                }
            }
        }
    }
}

/// if / elseif* / else chains, foreach, and blocks around them keep their order and nesting
fn content_nesting() {
    let nelif = vnd_conc(vnd_range(0, 3, 1), 3);
    let has_else = vnd_bool(2);
    let per_branch = vnd_conc(vnd_range(1, 2, 3), 2);
    let with_foreach = vnd_bool(4);
    let with_bare_log = vnd_bool(5);
    let mut t = String::from("<scxml version=\"1.0\" datamodel=\"rfsm-expression\" initial=\"a\"><state id=\"a\"><onentry>\n<raise event=\"before\"/>\n");
    if with_bare_log { t.push_str("<log label=\"L\"/>"); }
    t.push_str("<if cond=\"c0\">");
    let mut want: Vec<String> = Vec::new();
    let mut b = 0;
    let branch = |i: u32, t: &mut String| -> String { let mut s = String::new(); let mut k = 0; while k < per_branch { t.push_str(format!("<raise event=\"b{}_{}\"/>", i, k).as_str()); s.push_str(format!("b{}_{},", i, k).as_str()); k += 1; } s };
    let s0 = branch(0, &mut t);
    want.push(format!("c0:{}", s0));
    while b < nelif { b += 1; t.push_str(format!("<elseif cond=\"c{}\"/>", b).as_str()); let s = branch(b, &mut t); want.push(format!("c{}:{}", b, s)); }
    if has_else { t.push_str("<else/>"); let s = branch(9, &mut t); want.push(format!("else:{}", s)); }
    t.push_str("</if>\n");
    if with_foreach { t.push_str("<foreach array=\"arr\" item=\"it\" index=\"ix\"><raise event=\"f1\"/><raise event=\"f2\"/></foreach>"); }
    t.push_str("<raise event=\"after\"/></onentry></state></scxml>");
    let res = parse_from_xml(t);
    vnd_cover(420);
    vnd_check(420, res.is_ok());
    let fsm = res.unwrap();
    let a = fsm.get_state_by_name(&"a".to_string());
    let blk = fsm.executableContent.get(&a.onentry[0]).unwrap();
    let expect_len = (if with_foreach { 4 } else { 3 }) + (if with_bare_log { 1 } else { 0 });
    // known finding 4001: a <log> without 'expr' is dropped by the reader
    vnd_check_kf(421, a.onentry.len() == 1 && blk.len() == expect_len && raise_name(&blk[0]) == "before" && raise_name(&blk[blk.len() - 1]) == "after"
        && (!with_bare_log || blk[1].get_type() == TYPE_LOG), KF_LOG_WITHOUT_EXPR, with_bare_log);
    let mut ifx = 1; while ifx < blk.len() && blk[ifx].get_type() != TYPE_IF { ifx += 1; }
    vnd_assume(ifx + 1 < blk.len());
    let mut got = Vec::new();
    if_chain(&fsm, &blk[ifx], &mut got, 0);
    vnd_check(422, got == want);
    if with_foreach {
        let ok = match blk[ifx + 1].as_ref().as_any().downcast_ref::<ForEach>() {
            None => false,
            Some(f) => f.item == "it" && f.index == "ix" && match &f.array { Data::Source(c) => c.source == "arr", _ => false }
                && match fsm.executableContent.get(&f.content) { Some(fb) => fb.len() == 2 && raise_name(&fb[0]) == "f1" && raise_name(&fb[1]) == "f2", None => false },
        };
        vnd_check(423, ok);
    }
    vnd_obs(1, got.len() as u64);
}

/// equivalent spellings of an event descriptor ('e', 'e.', 'e.*', 'e.*.') give the same model; '*' sets the wildcard
fn descriptors() {
    let k = vnd_conc(vnd_range(0, 5, 1), 5);
    let spell = match k { 0 => "err.or", 1 => "err.or.", 2 => "err.or.*", 3 => "err.or.*.", 4 => "  err.or.*   x  ", _ => "*" };
    let t = format!("<scxml version=\"1.0\" datamodel=\"null\"><state id=\"a\"><transition event=\"{}\" target=\"a\"/></state></scxml>", spell);
    let fsm = parse_from_xml(t).unwrap();
    let a = fsm.get_state_by_name(&"a".to_string());
    let tr = fsm.get_transition_by_id(*a.transitions.head());
    vnd_cover(430);
    let want: Vec<String> = if k == 5 { vec!["*".to_string()] } else if k == 4 { vec!["err.or".to_string(), "x".to_string()] } else { vec!["err.or".to_string()] };
    vnd_check(430, tr.events == want && tr.wildcard == (k == 5));
    vnd_obs(1, tr.events.len() as u64);
}

fn src_is(d: &Data, want: &str) -> bool { match d { Data::Source(c) => c.source == want, _ => false } }
fn is_none(d: &Data) -> bool { match d { Data::None() => true, _ => false } }
fn params_are(p: &Option<Vec<Parameter>>, want: &[(&str, &str, &str)]) -> bool {
    match p {
        None => want.is_empty(),
        Some(v) => { if v.len() != want.len() { return false; } let mut i = 0; while i < v.len() { if v[i].name != want[i].0 || v[i].expr != want[i].1 || v[i].location != want[i].2 { return false; } i += 1; } true }
    }
}
fn content_is(c: &Option<CommonContent>, text: Option<&str>, expr: Option<&str>) -> bool {
    match c { None => text.is_none() && expr.is_none(), Some(cc) => cc.content.as_deref() == text && cc.content_expr.as_deref() == expr }
}

/// data declarations, invoke, send, donedata, param, content; rendered with a choice of lexical variants (namespace prefix,
/// comments between elements, quoting, an entity escape in an attribute and in element text)
fn elements() {
    let prefixed = vnd_bool(1);
    let p = if prefixed { "sc:" } else { "" };
    let q = if vnd_bool(2) { '"' } else { '\'' };
    let cmt = if vnd_bool(3) { "<!-- a <comment> -->\n  " } else { "" };
    let payload = vnd_conc(vnd_range(0, 2, 4), 2);          // 0 = params, 1 = <content expr>, 2 = <content>text</content>
    let data_form = vnd_conc(vnd_range(0, 4, 5), 4);        // 0 = expr attribute, 1 = child text, 2 = neither, 3 = text + comment, 4 = CDATA
    let send_form = vnd_bool(6);                            // literal vs *expr attributes
    let auto = vnd_bool(7);
    let mut t = String::new();
    let xmlns = if prefixed { " xmlns:sc=\"http://www.w3.org/2005/07/scxml\"" } else { "" };
    t.push_str(format!("<{p}scxml{xmlns} version={q}1.0{q} datamodel={q}rfsm-expression{q} initial={q}a{q}>{cmt}", p = p, xmlns = xmlns, q = q, cmt = cmt).as_str());
    t.push_str(format!("<{p}datamodel>{cmt}<{p}data id={q}g1{q} expr={q}1 &lt; 2{q}/><{p}data id={q}g2{q}>  [1,2]  </{p}data></{p}datamodel>\n", p = p, q = q, cmt = cmt).as_str());
    t.push_str(format!("<{p}state id={q}a{q}>{cmt}<{p}datamodel>", p = p, q = q, cmt = cmt).as_str());
    match data_form {
        0 => t.push_str(format!("<{p}data id={q}l1{q} expr={q}x &amp;&amp; y{q}/>", p = p, q = q).as_str()),
        1 => t.push_str(format!("<{p}data id={q}l1{q}>\n x &amp;&amp; y \n</{p}data>", p = p, q = q).as_str()),
        3 => t.push_str(format!("<{p}data id={q}l1{q}>x &amp;&amp; y <!-- c --></{p}data>", p = p, q = q).as_str()),
        4 => t.push_str(format!("<{p}data id={q}l1{q}><![CDATA[x && y]]></{p}data>", p = p, q = q).as_str()),
        _ => t.push_str(format!("<{p}data id={q}l1{q}/>", p = p, q = q).as_str()),
    }
    t.push_str(format!("</{p}datamodel>\n", p = p).as_str());
    // invoke
    t.push_str(format!("<{p}invoke id={q}inv1{q} type={q}scxml{q} src={q}file:child.scxml{q} namelist={q}g1  g2{q} autoforward={q}{a}{q}>{cmt}", p = p, q = q, cmt = cmt, a = if auto { "true" } else { "false" }).as_str());
    match payload {
        0 => t.push_str(format!("<{p}param name={q}p1{q} expr={q}g1{q}/>{cmt}<{p}param name={q}p2{q} location={q}g2{q}/>", p = p, q = q, cmt = cmt).as_str()),
        1 => t.push_str(format!("<{p}content expr={q}g2{q}/>", p = p, q = q).as_str()),
        _ => t.push_str(format!("<{p}content>  some text  </{p}content>", p = p).as_str()),
    }
    t.push_str(format!("<{p}finalize><{p}log label={q}fl{q} expr={q}fin{q}/></{p}finalize></{p}invoke>\n", p = p, q = q).as_str());
    t.push_str(format!("<{p}invoke idlocation={q}loc{q} typeexpr={q}ty{q} srcexpr={q}sr{q}/>\n", p = p, q = q).as_str());
    // send inside onentry, between two raises
    t.push_str(format!("<{p}onentry><{p}raise event={q}r1{q}/>{cmt}", p = p, q = q, cmt = cmt).as_str());
    if send_form {
        t.push_str(format!("<{p}send event={q}ev.1{q} target={q}#_parent{q} type={q}scxml{q} id={q}sid{q} delay={q}2s{q} namelist={q}g1 g2{q}>", p = p, q = q).as_str());
    } else {
        t.push_str(format!("<{p}send eventexpr={q}ee{q} targetexpr={q}te{q} typeexpr={q}ty{q} idlocation={q}il{q} delayexpr={q}de{q}>", p = p, q = q).as_str());
    }
    match payload {
        0 => t.push_str(format!("<{p}param name={q}p1{q} expr={q}g1{q}/><{p}param name={q}p2{q} location={q}g2{q}/>", p = p, q = q).as_str()),
        1 => t.push_str(format!("<{p}content expr={q}g2{q}/>", p = p, q = q).as_str()),
        _ => t.push_str(format!("<{p}content>  some text  </{p}content>", p = p).as_str()),
    }
    t.push_str(format!("</{p}send><{p}raise event={q}r2{q}/></{p}onentry>\n", p = p, q = q).as_str());
    t.push_str(format!("<{p}transition event={q}go{q} target={q}f{q}/></{p}state>\n", p = p, q = q).as_str());
    // final with donedata
    t.push_str(format!("<{p}final id={q}f{q}><{p}donedata>{cmt}", p = p, q = q, cmt = cmt).as_str());
    match payload {
        0 => t.push_str(format!("<{p}param name={q}p1{q} expr={q}g1{q}/><{p}param name={q}p2{q} location={q}g2{q}/>", p = p, q = q).as_str()),
        1 => t.push_str(format!("<{p}content expr={q}g2{q}/>", p = p, q = q).as_str()),
        _ => t.push_str(format!("<{p}content>  some text  </{p}content>", p = p).as_str()),
    }
    t.push_str(format!("</{p}donedata></{p}final></{p}scxml>", p = p).as_str());

    let res = parse_from_xml(t);
    vnd_cover(440);
    vnd_check(440, res.is_ok());
    let fsm = res.unwrap();
    let want_params: [(&str, &str, &str); 2] = [("p1", "g1", ""), ("p2", "", "g2")];
    let wp: &[(&str, &str, &str)] = if payload == 0 { &want_params } else { &[] };
    let (wtext, wexpr) = match payload { 0 => (None, None), 1 => (None, Some("g2")), _ => (Some("some text"), None) };
    let has_c = payload != 0;
    // global and local data
    let root = fsm.get_state_by_id(fsm.pseudo_root);
    let dval = |st: &State, k: &str| -> Option<String> { match st.data.get(k) { None => None, Some(d) => match &*d.lock().unwrap() { Data::Source(c) => Some(c.source.clone()), _ => Some("<other>".to_string()) } } };
    vnd_check(441, root.data.len() == 2 && dval(root, "g1") == Some("1 < 2".to_string()) && dval(root, "g2") == Some("[1,2]".to_string()));
    let a = fsm.get_state_by_name(&"a".to_string());
    let want_l1 = if data_form == 2 { "" } else { "x && y" };
    // known finding 4002: a comment or CDATA section inside element text is kept verbatim (and switches entity resolution off)
    vnd_check_kf(442, a.data.len() == 1 && dval(a, "l1") == Some(want_l1.to_string()), KF_MARKUP_IN_TEXT, data_form >= 3);
    // invokes
    let mut inv: Vec<&Invoke> = Vec::new(); for i in a.invoke.iterator() { inv.push(i); }
    vnd_check(443, inv.len() == 2);
    let i1 = inv[0];
    vnd_check(444, i1.invoke_id == "inv1" && i1.external_id_location == "" && src_is(&i1.type_name, "scxml") && is_none(&i1.type_expr) && src_is(&i1.src, "file:child.scxml") && is_none(&i1.src_expr)
        && i1.name_list == vec!["g1".to_string(), "g2".to_string()] && i1.autoforward == auto && i1.parent_state_name == "a");
    vnd_check(445, params_are(&i1.params, wp) && (has_c == i1.content.is_some()) && (!has_c || content_is(&i1.content, wtext, wexpr)));
    let fin_ok = match fsm.executableContent.get(&i1.finalize) { None => false, Some(b) => b.len() == 1 && match b[0].as_ref().as_any().downcast_ref::<Log>() { Some(l) => l.label == "fl" && src_is(&l.expression, "fin"), None => false } };
    vnd_check(446, i1.finalize != 0 && fin_ok);
    let i2 = inv[1];
    // document ids: what the interpreter uses to tell the invokes of one state apart (finalize, cancel) and to order them
    vnd_check(451, i1.doc_id != 0 && i2.doc_id != 0 && i1.doc_id < i2.doc_id);
    vnd_check(447, i2.invoke_id == "" && i2.external_id_location == "loc" && is_none(&i2.type_name) && src_is(&i2.type_expr, "ty") && is_none(&i2.src) && src_is(&i2.src_expr, "sr")
        && i2.name_list.is_empty() && !i2.autoforward && i2.params.is_none() && i2.content.is_none() && i2.finalize == 0);
    // send
    let blk = fsm.executableContent.get(&a.onentry[0]).unwrap();
    vnd_check(448, a.onentry.len() == 1 && blk.len() == 3 && raise_name(&blk[0]) == "r1" && raise_name(&blk[2]) == "r2" && blk[1].get_type() == TYPE_SEND);
    let ok_send = match blk[1].as_ref().as_any().downcast_ref::<SendParameters>() {
        None => false,
        Some(sp) => {
            let attrs = if send_form {
                src_is(&sp.event, "ev.1") && is_none(&sp.event_expr) && src_is(&sp.target, "#_parent") && is_none(&sp.target_expr) && src_is(&sp.type_value, "scxml") && is_none(&sp.type_expr)
                    && sp.name == "sid" && sp.name_location == "" && sp.delay_ms == 2000 && is_none(&sp.delay_expr) && sp.name_list == vec!["g1".to_string(), "g2".to_string()]
            } else {
                is_none(&sp.event) && src_is(&sp.event_expr, "ee") && is_none(&sp.target) && src_is(&sp.target_expr, "te") && is_none(&sp.type_value) && src_is(&sp.type_expr, "ty")
                    && sp.name == "" && sp.name_location == "il" && sp.delay_ms == 0 && src_is(&sp.delay_expr, "de") && sp.name_list.is_empty()
            };
            attrs && params_are(&sp.params, wp) && (has_c == sp.content.is_some()) && (!has_c || content_is(&sp.content, wtext, wexpr))
        }
    };
    vnd_check(449, ok_send);
    // donedata
    let f = fsm.get_state_by_name(&"f".to_string());
    let ok_dd = match &f.donedata { None => false, Some(dd) => params_are(&dd.params, wp) && (has_c == dd.content.is_some()) && (!has_c || content_is(&dd.content, wtext, wexpr)) };
    vnd_check(450, f.is_final && ok_dd && a.donedata.is_none());
    vnd_obs(1, fsm.states.len() as u64);
}
