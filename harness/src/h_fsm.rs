//! C01 / C02 / C06 / C07(a): one selection + microstep of the real interpreter from an arbitrary legal pre-state,
//! compared with the reference semantics of `sc.rs`; start-up (enterStates of the initial transition).
use crate::sc::*;
use crate::vnd::*;
use rufsm::fsm::*;

macro_rules! harnesses {
    ($($name:ident => $body:expr),* $(,)?) => {
        pub fn run(name: &str) -> bool {
            match name {
                $( stringify!($name) => $name(), )*
                _ => return false,
            }
            true
        }
        $( pub fn $name() { $body } )*
    };
}

// modes: bit0 = event-less selection (else event "e1"); bit1 = late binding; bit2 = second transition restricted to its region;
//        bit3 = "light": fixed external type, no guard errors (per-change tier)
const EVL: u32 = 1;
const LATE: u32 = 2;
const RESTR: u32 = 4;
const LIGHT: u32 = 8;
// bit4 = the root's initial transition is internal (reader-built models): the root is never in the configuration
const ROOTI: u32 = 16;
// bit5 = the pre-state's configuration list is in reverse document order (the configuration is kept in entry order, which is not document order)
const REVC: u32 = 32;
// bit6 = one solver-chosen onentry body fails (returns false): the state's other blocks (initial-transition content, history default content) still run
const FAILB: u32 = 64;

harnesses! {
    // per-change tier: one fully symbolic transition, event selection
    h_sc1_s0 => sc_step(0, 1, 0), h_sc1_s1 => sc_step(1, 1, 0), h_sc1_s2 => sc_step(2, 1, 0), h_sc1_s3 => sc_step(3, 1, LIGHT),
    h_sc1_s4 => sc_step(4, 1, 0), h_sc1_s5 => sc_step(5, 1, 0), h_sc1_s6 => sc_step(6, 1, 0), h_sc1_s7 => sc_step(7, 1, LIGHT),
    h_sc1_s8 => sc_step(8, 1, LIGHT), h_sc1_s9 => sc_step(9, 1, 0), h_sc1_s10 => sc_step(10, 1, LIGHT), h_sc1_s11 => sc_step(11, 1, LIGHT),
    h_sc1_s12 => sc_step(12, 1, LIGHT), h_sc1_s13 => sc_step(13, 1, LIGHT), h_sc1_s14 => sc_step(14, 1, LIGHT),
    // event-less selection and late binding on the small shapes
    h_sc1e_s1 => sc_step(1, 1, EVL | LATE), h_sc1e_s4 => sc_step(4, 1, EVL | LATE), h_sc1e_s6 => sc_step(6, 1, EVL | LATE),
    // two transitions, the second one restricted to the region of its source (conflict / pre-emption inside parallel states)
    h_sc2r_s3 => sc_step(3, 2, RESTR | LIGHT), h_sc2r_s7 => sc_step(7, 2, RESTR | LIGHT), h_sc2r_s1 => sc_step(1, 2, RESTR | LIGHT),
    // deep tier: everything symbolic
    h_sc1f_s3 => sc_step(3, 1, 0), h_sc1f_s7 => sc_step(7, 1, 0), h_sc1f_s8 => sc_step(8, 1, 0), h_sc1f_s10 => sc_step(10, 1, 0), h_sc1f_s11 => sc_step(11, 1, 0),
    h_sc1e_s3 => sc_step(3, 1, EVL | LATE), h_sc1e_s5 => sc_step(5, 1, EVL | LATE), h_sc1e_s8 => sc_step(8, 1, EVL | LATE), h_sc1e_s9 => sc_step(9, 1, EVL | LATE),
    h_sc2_s0 => sc_step(0, 2, 0), h_sc2_s1 => sc_step(1, 2, 0), h_sc2_s2 => sc_step(2, 2, 0), h_sc2_s3 => sc_step(3, 2, LIGHT),
    h_sc2_s4 => sc_step(4, 2, 0), h_sc2_s5 => sc_step(5, 2, LIGHT), h_sc2_s6 => sc_step(6, 2, 0), h_sc2_s7 => sc_step(7, 2, LIGHT),
    h_sc2_s8 => sc_step(8, 2, LIGHT), h_sc2_s9 => sc_step(9, 2, 0), h_sc2_s10 => sc_step(10, 2, LIGHT), h_sc2_s11 => sc_step(11, 2, LIGHT),
    // reader-built root (never entered): per-change tier on one shape of each family
    h_sc1i_s1 => sc_step(1, 1, ROOTI | REVC | FAILB), h_sc1i_s3 => sc_step(3, 1, LIGHT | ROOTI | REVC), h_sc1i_s4 => sc_step(4, 1, ROOTI | REVC | FAILB), h_sc1i_s6 => sc_step(6, 1, ROOTI | REVC), h_sc1i_s7 => sc_step(7, 1, LIGHT | ROOTI | REVC),
    h_start_all => sc_startup(),
}

/// known finding: a transition whose target is a history pseudo-state of a state that the transition does not exit
pub const KF_HISTORY_INSIDE: u32 = 1001;

fn sym_transition(sh: &Shape, k: u32, restricted: bool, light: bool, restrict_first: bool) -> (MT, u32) {
    let b = 100 * (k + 1);
    let n = sh.n as u32;
    let src = vnd_conc(vnd_range(2, n, b + 1), n);
    let ntgt = vnd_conc(vnd_range(0, if restricted { 1 } else { 2 }, b + 2), 2);
    let t0 = if ntgt >= 1 { vnd_conc(vnd_range(2, n, b + 3), n) } else { 0 };
    let t1 = if ntgt >= 2 { vnd_conc(vnd_range(2, n, b + 4), n) } else { 0 };
    let internal = vnd_bool(b + 5);
    // light mode: the transition always matches the event and its guard (if any) is true -- selection logic is exercised by the full-mode shapes
    let ev = if light || restricted { 1 } else { vnd_range(0, 2, b + 6) };
    // 0: no cond, 1: cond true, 2: cond false, 3: cond raises an error
    let g = if restricted { 0 } else { vnd_range(0, if light { 1 } else { 3 }, b + 7) };
    if restricted { vnd_assume(src > n / 2); }
    if restrict_first { vnd_assume(src <= n / 2 + 1 && ntgt <= 1); }
    let t = MT { src, tgt: [t0, t1], ntgt, internal, ev, has_cond: g != 0 };
    vnd_assume(conformant_t(sh, &t));
    if restricted {
        // second transition: stays inside the region of its source (targets are descendants of the source's parent)
        let p = sh.parent[src as usize];
        vnd_assume(ntgt == 0 || sh.is_desc(t0, p));
    }
    (t, if g == 1 || g == 0 { 1 } else if g == 2 { 0 } else { 2 })
}

/// symbolic legal pre-state -> (ordered configuration, history values)
fn sym_prestate(sh: &Shape) -> (Vec<u32>, HV) {
    let confs = sh.configs_of(1);
    let ci = vnd_range(0, confs.len() as u32 - 1, 50) as usize;
    let conf = sh.ordered(confs[ci]);
    let mut hv = HV::new();
    let mut h = 1u32;
    while h <= sh.n as u32 {
        if sh.is_hist(h) {
            let vals = sh.history_values(h);
            let hi = vnd_range(0, vals.len() as u32, 60 + h) as usize;
            if hi > 0 { hv.set |= 1 << h; hv.val[h as usize] = vals[hi - 1]; }
        }
        h += 1;
    }
    (conf, hv)
}

pub fn hinv(sh: &Shape, hv: &HV) -> bool {
    let mut h = 1u32;
    while h <= sh.n as u32 {
        if hv.set & (1 << h) != 0 {
            if !sh.is_hist(h) { return false; }
            let vals = sh.history_values(h);
            if !vals.contains(&hv.val[h as usize]) { return false; }
        }
        h += 1;
    }
    true
}

fn no_dups(v: &[u32]) -> bool {
    let mut i = 0;
    while i < v.len() { let mut j = i + 1; while j < v.len() { if v[i] == v[j] { return false; } j += 1; } i += 1; }
    true
}

/// entry/exit discipline from the content log: onentry(s) only while s is inactive, onexit(s) only while active, each at most once
fn discipline(sh: &Shape, pre: u32, log: &[u32]) -> bool {
    let mut act = pre;
    let (mut entered, mut exited) = (0u32, 0u32);
    for &tok in log {
        if tok >= X_ENTRY && tok < X_ENTRY + 100 {
            let s = tok - X_ENTRY;
            if act & (1 << s) != 0 || entered & (1 << s) != 0 || sh.is_hist(s) { return false; }
            act |= 1 << s; entered |= 1 << s;
        } else if tok >= X_EXIT && tok < X_EXIT + 100 {
            let s = tok - X_EXIT;
            if act & (1 << s) == 0 || exited & (1 << s) != 0 { return false; }
            act &= !(1 << s); exited |= 1 << s;
        }
    }
    true
}

/// One selection round and one microstep from an arbitrary legal pre-state with `nt` symbolic ordinary transitions.
fn sc_step(shape_ix: u32, nt: u32, mode: u32) {
    let mut sh = shape_by_index(shape_ix);
    sh.root_internal = mode & ROOTI != 0;
    let mut ts = Vec::new();
    let mut guards = Vec::new();
    let mut hist_inside = false;
    let mut k = 0;
    while k < nt {
        let (t, g) = sym_transition(&sh, k, mode & RESTR != 0 && k == 1, mode & LIGHT != 0, mode & RESTR != 0 && k == 0);
        let mut i = 0;
        while i < t.ntgt as usize {
            let x = t.tgt[i];
            if sh.is_hist(x) && (t.src == sh.parent[x as usize] || sh.is_desc(t.src, sh.parent[x as usize])) { hist_inside = true; }
            i += 1;
        }
        ts.push(t); guards.push(g);
        k += 1;
    }
    let late = mode & LATE != 0 && vnd_bool(40);
    let m = Model { sh, ts, late };
    let (mut conf, hv) = sym_prestate(&m.sh);
    if mode & REVC != 0 { conf.reverse(); }
    if mode & LIGHT != 0 {
        // light mode explores only pre-states in which every symbolic transition's source is active (decided before anything is built)
        let pm = mask_of(&conf);
        for t in &m.ts { vnd_assume(pm & (1 << t.src) != 0); }
    }
    let eventless = mode & EVL != 0;
    let mut fsm = build_fsm(&m);
    let g = new_global();
    put_config(&g, &conf);
    put_history(&g, &m.sh, &hv);
    g.lock().unwrap().running = true;
    let pre_mask = mask_of(&conf);
    if mode & LIGHT != 0 {
        // light mode explores only pre-states in which every symbolic transition's source is active
        for t in &m.ts { vnd_assume(pre_mask & (1 << t.src) != 0); }
    }
    // first-entry flags: inactive states have never been entered (all true) -- active ones are marked entered
    let mut first_entry = 0u32;
    let mut s = 1u32;
    while s <= m.sh.n as u32 { if pre_mask & (1 << s) == 0 { first_entry |= 1 << s; } else { fsm.states[(s - 1) as usize].isFirstEntry = false; } s += 1; }
    let mut dm = VDm::new(g.clone());
    dm.guards = guards.clone();
    if mode & FAILB != 0 { let fb = vnd_range(2, m.sh.n as u32, 45); dm.effects.push((X_ENTRY + fb, 3)); }

    // ---- the real code
    let enabled = if eventless { fsm.vh_selectEventlessTransitions(&mut dm) } else { fsm.vh_selectTransitions(&mut dm, &Event::new_simple("e1")) };
    let mut sel_real = Vec::new();
    for t in enabled.iterator() { sel_real.push(*t - T_ORD); }
    let glog_len = dm.log.len();
    if !enabled.isEmpty() { fsm.vh_microstep(&mut dm, &enabled.toList()); }

    // ---- the reference
    let r = Ref { m: &m };
    let mut rlog = Vec::new();
    let mut errors = 0u32;
    let sel_ref = r.select(pre_mask, eventless, 1, &guards, &hv, &mut rlog, &mut errors);
    let out = if sel_ref.is_empty() {
        RefOut { log: Vec::new(), config: conf.clone(), queue: Vec::new(), hv: hv.clone(), running: true, selected: Vec::new() }
    } else { r.microstep(&conf, &sel_ref, &hv, &mut first_entry) };
    let mut rq = Vec::new();
    let mut e = 0; while e < errors { rq.push(9); e += 1; }
    for x in &out.queue { rq.push(*x); }

    // ---- C02: optimal transition set, order of the microstep, resulting state
    vnd_check(201, sel_real == sel_ref);
    vnd_check(202, dm.log[..glog_len] == rlog[..]);
    vnd_check(203, dm.log[glog_len..] == plain(&out.log)[..]);
    let post = get_config(&g);
    vnd_cover(204);
    vnd_check(204, post == out.config);
    vnd_check(205, get_queue(&g) == rq);
    // ---- C06: history recorded / restored
    let hv_post = get_history(&g, &m.sh);
    vnd_check(601, hv_same(&hv_post, &out.hv, m.sh.n));
    // ---- C07(a): running flag for top-level finals
    vnd_check(701, g.lock().unwrap().running == out.running);
    // ---- C01: legality, no duplicates, history invariant, entry/exit discipline (oracle-free)
    vnd_check(101, m.sh.legal(mask_of(&post)) && no_dups(&post));
    vnd_check(102, hinv(&m.sh, &hv_post));
    vnd_check_kf(103, discipline(&m.sh, pre_mask, &dm.log[glog_len..]), KF_HISTORY_INSIDE, hist_inside);
    vnd_obs(1, mask_of(&post) as u64);
    vnd_obs(2, dm.log.len() as u64);
}

/// start-up of every catalogue shape: enterStates([root initial]) yields the reference configuration and trace
fn sc_startup() {
    let ix = vnd_range(0, NSHAPES - 1, 1);
    let mut sh = shape_by_index(ix);
    let late = vnd_bool(2);
    sh.root_internal = vnd_bool(3);
    let m = Model { sh, ts: Vec::new(), late };
    let mut fsm = build_fsm(&m);
    let g = new_global();
    g.lock().unwrap().running = true;
    let mut dm = VDm::new(g.clone());
    let mut l = List::new();
    l.push(T_INIT + 1);
    fsm.vh_enterStates(&mut dm, &l);
    let r = Ref { m: &m };
    let mut fe = 0xffff_fffeu32;
    let out = r.startup(&HV::new(), &mut fe);
    let post = get_config(&g);
    vnd_cover(210);
    if vnd_is_replay() && (post != out.config || dm.log != out.log) { println!("DEBUG real conf {:?} log {:?}\nDEBUG ref  conf {:?} log {:?}", post, dm.log, out.config, out.log); }
    vnd_check(210, post == out.config && dm.log == plain(&out.log));
    vnd_check(211, get_queue(&g) == out.queue && g.lock().unwrap().running == out.running);
    vnd_check(110, m.sh.legal(mask_of(&post)) && no_dups(&post) && discipline(&m.sh, 0, &dm.log));
    vnd_obs(1, mask_of(&post) as u64);
}
