//! C12 / C15 / C16: the platform side — <send> through the SCXML event I/O processor on a topology of three sessions,
//! failing platform operations, delayed sends and <cancel>.  Sessions are registered by hand (no session threads run).
use crate::vnd::*;
use rufsm::datamodel::expression_engine::RFsmExpressionDatamodel;
use rufsm::datamodel::*;
use rufsm::event_io_processor::scxml_event_io_processor::*;
use rufsm::executable_content::*;
use rufsm::fsm::*;
use rufsm::fsm_executor::FsmExecutor;

macro_rules! harnesses {
    ($($name:ident => $body:expr),* $(,)?) => {
        pub fn run(name: &str) -> bool {
            match name { $( stringify!($name) => $name(), )* _ => return false, }
            true
        }
        $( pub fn $name() { $body } )*
    };
}

harnesses! {
    h_c15_route => route(),
    h_c12_send_errors => send_errors(),
    h_c12_loop_survives => loop_survives(),
    h_c16_sched => delayed_schedule(),
    h_c16_fire => delayed_fire(),
    h_c16_two => delayed_two(),
    h_c16_units => delay_units(),
}

pub struct Topo { pub ex: FsmExecutor, pub g: Vec<GlobalDataArc> }

/// sessions 1 (sender), 2 (its parent, optional) and 3 (its invoked child "child", optional) on one executor
pub fn topo(with_parent: bool, with_child: bool) -> Topo {
    let ex = FsmExecutor::new_without_io_processor();
    let mut g: Vec<GlobalDataArc> = Vec::new();
    let mut i = 1u32;
    while i <= 3 {
        let gd = create_global_data_arc();
        {
            let mut l = gd.lock().unwrap();
            l.session_id = i;
            l.executor = Some(Box::new(ex.clone()));
            let st = ex.state.lock().unwrap();
            for p in &st.processors {
                let pg = p.lock().unwrap();
                for t in pg.get_types() { l.io_processors.insert(t.to_string(), p.clone()); }
            }
        }
        let sender = gd.lock().unwrap().externalQueue.sender.clone();
        let mut s = ScxmlSession::new_without_join_handle(i, sender);
        s.global_data = gd.clone();
        ex.state.lock().unwrap().sessions.insert(i, s);
        g.push(gd);
        i += 1;
    }
    {
        let child = ex.state.lock().unwrap().sessions.get(&3).unwrap().clone();
        let mut l = g[0].lock().unwrap();
        if with_parent { l.parent_session_id = Some(2); l.caller_invoke_id = Some("me".to_string()); }
        if with_child { l.child_sessions.insert("child".to_string(), child); }
    }
    Topo { ex, g }
}

pub fn drain_ext(g: &GlobalDataArc) -> Vec<Event> {
    let rx = g.lock().unwrap().externalQueue.receiver.clone();
    let mut v = Vec::new();
    loop {
        let r = rx.lock().unwrap().try_recv();
        match r { Ok(e) => v.push(*e), Err(_) => break }
    }
    v
}

pub fn internal_names(g: &GlobalDataArc) -> Vec<String> {
    let gd = g.lock().unwrap();
    let mut v = Vec::new();
    let mut i = 0;
    while i < gd.vh_internal_queue_len() { v.push(gd.vh_internal_queue_get(i).name); i += 1; }
    v
}

fn src(t: &str, id: usize) -> Data { Data::Source(SourceCode::new(t, id)) }

const TARGETS: [&str; 13] = ["", "#_internal", "#_scxml_2", "#_scxml_3", "#_parent", "#_child", "#_scxml_9", "#_scxml_x", "http://example.org/x", "#_scxml_1", "#_scxml_", "#_scxml_-1", "#_scxml_kid"];
pub const KF_INVOKEID_LIKE_SESSION_TARGET: u32 = 1501;
pub const KF_SAME_SENDID_PENDING: u32 = 1602;

fn mk_send(target_ix: usize, via_expr: bool, type_ix: u32, payload: u32) -> SendParameters {
    let mut sp = SendParameters::new();
    sp.name = "sid1".to_string();
    sp.event = Data::String("ev".to_string());
    if via_expr { sp.target_expr = src(format!("'{}'", TARGETS[target_ix]).as_str(), 5); } else { sp.target = Data::String(TARGETS[target_ix].to_string()); }
    sp.type_value = match type_ix { 0 => Data::None(), 1 => Data::String("scxml".to_string()), 2 => Data::String(SCXML_EVENT_PROCESSOR.to_string()), _ => Data::String("bogus-type".to_string()) };
    match payload {
        1 => { let mut p = Parameter::new(); p.name = "p1".to_string(); p.expr = "a".to_string(); sp.params = Some(vec![p]); }
        2 => { sp.name_list.push("a".to_string()); }
        3 => { sp.content = Some(CommonContent { content: None, content_expr: Some("a + 1".to_string()) }); }
        4 => { let mut p = Parameter::new(); p.name = "p1".to_string(); p.expr = "a".to_string(); sp.params = Some(vec![p]); sp.name_list.push("a".to_string()); }
        5 => { let mut p = Parameter::new(); p.name = "p2".to_string(); p.location = "arrv".to_string(); sp.params = Some(vec![p]); }
        _ => {}
    }
    sp
}

fn int_param(e: &Event, name: &str) -> Option<i64> {
    match &e.param_values { None => None, Some(v) => { for p in v { if p.name == name { if let Data::Integer(i) = p.value { return Some(i); } } } None } }
}

/// C15: every target form x payload shape x topology: exactly the addressed queue receives exactly one faithful event
fn route() {
    let with_parent = vnd_bool(1);
    let with_child = vnd_bool(2);
    let tix0 = vnd_conc(vnd_range(0, 7, 3), 7) as usize;
    // index 6 stands for the sender's own session id ("#_scxml_1"): its external queue;
    // index 7 for "#_<invokeid>" with an invoke id that begins with "scxml_" (the child is registered under "scxml_kid" as well)
    let tix = if tix0 == 6 { 9 } else if tix0 == 7 { 12 } else { tix0 };
    let via_expr = vnd_bool(4);
    let type_ix = vnd_range(0, 2, 5);
    let payload = vnd_conc(vnd_range(0, 5, 6), 5);
    let a = vnd_i64(7);
    vnd_assume(a < i64::MAX);
    // addressed sessions must exist in this harness (failing targets: h_c12_send_errors)
    vnd_assume((tix != 4 || with_parent) && ((tix != 5 && tix != 12) || with_child));
    let t = topo(with_parent, with_child);
    t.g[0].lock().unwrap().data.set_undefined("a".to_string(), Data::Integer(a));
    t.g[0].lock().unwrap().data.set_undefined("arrv".to_string(), Data::Array(vec![create_data_arc(Data::Integer(1)), create_data_arc(Data::Integer(a))]));
    if tix == 12 {
        let child = t.ex.state.lock().unwrap().sessions.get(&3).unwrap().clone();
        t.g[0].lock().unwrap().child_sessions.insert("scxml_kid".to_string(), child);
    }
    let fsm = Fsm::new();
    let mut dm = RFsmExpressionDatamodel::new(t.g[0].clone());
    let sp = mk_send(tix, via_expr, type_ix, payload);
    let ok = sp.execute(&mut dm, &fsm);
    let (e1, e2, e3) = (drain_ext(&t.g[0]), drain_ext(&t.g[1]), drain_ext(&t.g[2]));
    let i1 = t.g[0].lock().unwrap().vh_internal_queue_len();
    if tix == 12 {
        // known finding 1501: "#_scxml_kid" is taken for a session-id target although "scxml_kid" is the id of a running invoke
        vnd_cover(1501);
        vnd_check_kf(1507, ok && e3.len() == 1 && e1.is_empty() && e2.is_empty() && i1 == 0, KF_INVOKEID_LIKE_SESSION_TARGET, true);
        vnd_obs(1, (e1.len() + 10 * e2.len() + 100 * e3.len() + 1000 * i1) as u64);
        return;
    }
    let want = match tix { 0 | 9 => 1, 1 => 0, 2 | 4 => 2, _ => 3 };
    vnd_cover(1501);
    vnd_check(1501, ok && e1.len() == if want == 1 { 1 } else { 0 } && e2.len() == if want == 2 { 1 } else { 0 } && e3.len() == if want == 3 { 1 } else { 0 } && i1 == if want == 0 { 1 } else { 0 });
    vnd_check(1502, t.g[1].lock().unwrap().vh_internal_queue_len() == 0 && t.g[2].lock().unwrap().vh_internal_queue_len() == 0);
    let ev = if want == 1 { e1.get(0).cloned() } else if want == 2 { e2.get(0).cloned() } else if want == 3 { e3.get(0).cloned() } else if i1 == 1 { Some(t.g[0].lock().unwrap().vh_internal_queue_get(0)) } else { None };
    match ev {
        None => vnd_check(1503, false),
        Some(e) => {
            vnd_check(1503, e.name == "ev" && e.sendid == Some("sid1".to_string()));
            vnd_check(1504, e.origin_type == Some(SCXML_EVENT_PROCESSOR.to_string()) && e.origin == Some("#_scxml_1".to_string()));
            let data_ok = match payload {
                1 => int_param(&e, "p1") == Some(a) && e.content.is_none(),
                2 => int_param(&e, "a") == Some(a) && e.content.is_none(),
                3 => e.param_values.is_none() && match &e.content { Some(Data::Integer(v)) => *v == a + 1, _ => false },
                // namelist and <param> together: both values arrive
                4 => int_param(&e, "p1") == Some(a) && int_param(&e, "a") == Some(a) && e.content.is_none(),
                // <param location> naming an array: the structured value arrives
                5 => match &e.param_values { Some(v) => v.len() == 1 && v[0].name == "p2" && match &v[0].value { Data::Array(items) => items.len() == 2 && match &*items[1].lock().unwrap() { Data::Integer(x) => *x == a, _ => false }, _ => false }, None => false },
                _ => e.param_values.is_none() && e.content.is_none(),
            };
            vnd_check(1505, data_ok);
            // a reply to `origin` sent by the receiver reaches the original sender's external queue
            if want == 2 || want == 3 {
                let rg = if want == 2 { &t.g[1] } else { &t.g[2] };
                let p = rg.lock().unwrap().io_processors.get("scxml").unwrap().clone();
                let origin = e.origin.clone().unwrap();
                let r = p.lock().unwrap().send(rg, origin.as_str(), Event::new_simple("reply"));
                let back = drain_ext(&t.g[0]);
                vnd_check(1506, r && back.len() == 1 && back[0].name == "reply");
            }
        }
    }
    vnd_obs(1, (e1.len() + 10 * e2.len() + 100 * e3.len() + 1000 * i1) as u64);
}

/// C12: failing platform operations produce the prescribed error event (or are only logged), never a panic
fn send_errors() {
    let with_parent = vnd_bool(1);
    let with_child = vnd_bool(2);
    let traw = vnd_conc(vnd_range(0, 10, 3), 10) as usize;
    let tix = if traw >= 9 { traw + 1 } else { traw };
    let type_ix = vnd_range(0, 3, 5);
    // which argument expression fails to evaluate: 0 none, 1 targetexpr, 2 eventexpr, 3 param expr, 4 namelist location, 5 delayexpr, 6 typeexpr
    // 7: targetexpr and typeexpr are the same variable (one value, locked for both); 8: a delay beyond the timer's date range
    let bad = vnd_conc(vnd_range(0, 8, 6), 8);
    let t = topo(with_parent, with_child);
    t.g[0].lock().unwrap().data.set_undefined("a".to_string(), Data::Integer(1));
    t.g[0].lock().unwrap().data.set_undefined("v".to_string(), Data::String("#_scxml_2".to_string()));
    let fsm = Fsm::new();
    let mut dm = RFsmExpressionDatamodel::new(t.g[0].clone());
    let mut sp = mk_send(tix, false, type_ix, 0);
    match bad {
        1 => { sp.target = Data::None(); sp.target_expr = src("nosuch", 11); }
        2 => { sp.event = Data::None(); sp.event_expr = src("nosuch + 1", 12); }
        3 => { let mut p = Parameter::new(); p.name = "p".to_string(); p.expr = "nosuch".to_string(); sp.params = Some(vec![p]); }
        4 => { sp.name_list.push("nosuch".to_string()); }
        5 => { sp.delay_expr = src("nosuch", 13); }
        6 => { sp.type_value = Data::None(); sp.type_expr = src("nosuch", 14); }
        7 => { sp.target = Data::None(); sp.target_expr = src("v", 15); sp.type_value = Data::None(); sp.type_expr = src("v", 16); }
        8 => { sp.delay_ms = 9_100_000_000_000_000_000; }
        _ => {}
    }
    let ok = sp.execute(&mut dm, &fsm);
    let (e1, e2, e3) = (drain_ext(&t.g[0]), drain_ext(&t.g[1]), drain_ext(&t.g[2]));
    let names = internal_names(&t.g[0]);
    let delivered = e1.len() + e2.len() + e3.len() + names.iter().filter(|n| n.as_str() == "ev").count();
    let nexec = names.iter().filter(|n| n.as_str() == "error.execution").count();
    let ncomm = names.iter().filter(|n| n.as_str() == "error.communication").count();
    let target_exists = match tix { 4 => with_parent, 5 => with_child, 6 | 7 | 8 | 10 | 11 => false, _ => true };
    let bad_type = type_ix == 3;
    vnd_cover(1201);
    if bad == 3 {
        // a failing <param> is ignored (error.execution) and the event is still sent
        vnd_check(1202, nexec >= 1);
    } else if bad != 0 {
        // an erroring argument expression: error.execution, nothing is sent
        vnd_check(1203, !ok && delivered == 0 && nexec >= 1 && ncomm == 0);
    } else if bad_type {
        vnd_check(1204, !ok && delivered == 0 && nexec == 1 && ncomm == 0);
    } else if target_exists {
        vnd_check(1205, ok && delivered == 1 && nexec == 0 && ncomm == 0);
    } else if tix == 8 {
        // malformed / unsupported target: error.execution
        vnd_check(1206, !ok && delivered == 0 && nexec >= 1 && ncomm == 0);
    } else if tix == 7 || tix == 10 || tix == 11 {
        vnd_check(1207, !ok && delivered == 0 && nexec + ncomm >= 1);
    } else if tix == 4 {
        // a missing parent is at most reported as an error event or logged
        vnd_check(1208, !ok && delivered == 0);
    } else {
        // nonexistent or unreachable target session / invoke id: error.communication
        vnd_check(1209, !ok && delivered == 0 && ncomm == 1);
    }
    vnd_obs(1, (delivered * 100 + nexec * 10 + ncomm) as u64);
}

/// C12: after a failing platform operation the session keeps processing events and can be cancelled
fn loop_survives() {
    use crate::sc::*;
    let tix = vnd_conc(vnd_range(4, 8, 1), 8) as usize;
    let t = topo(false, false);
    let sh = shape_by_index(0);
    let mut m = Model { sh, ts: Vec::new(), late: false };
    m.ts.push(MT { src: 2, tgt: [3, 0], ntgt: 1, internal: false, ev: 1, has_cond: false });
    let mut fsm = build_fsm(&m);
    // the transition body is a real <send> to a failing target, executed by the real rfsm-expression datamodel
    let sp = mk_send(tix, false, 1, 0);
    fsm.executableContent.insert(X_TRANS, vec![Box::new(sp) as Box<dyn ExecutableContent>]);
    let mut i = 1u32;
    while i <= 4 { fsm.executableContent.insert(X_ENTRY + i, Vec::new()); fsm.executableContent.insert(X_EXIT + i, Vec::new()); i += 1; }
    put_config(&t.g[0], &[1, 2]);
    {
        let mut gd = t.g[0].lock().unwrap();
        gd.running = true;
        gd.externalQueue.enqueue(Box::new(Event::new_simple("e1")));
        gd.externalQueue.enqueue(Box::new(Event::new_simple(EVENT_CANCEL_SESSION)));
    }
    let mut dm = RFsmExpressionDatamodel::new(t.g[0].clone());
    fsm.vh_mainEventLoop(&mut dm);
    let gd = t.g[0].lock().unwrap();
    vnd_cover(1210);
    vnd_check(1210, !gd.running && gd.configuration.size() == 0);
    vnd_obs(1, gd.vh_internal_queue_len() as u64);
}

/// C16: a delayed send is not delivered when it executes; <cancel> with its id (and only that) removes it; illegal delays raise error.execution
fn delayed_schedule() {
    let delay = vnd_u64(1);
    let tix = vnd_conc(vnd_range(0, 1, 2), 1) as usize;     // "" or "#_internal"
    let cancel_which = vnd_conc(vnd_range(0, 2, 3), 2);      // 0: no cancel, 1: cancel this id, 2: cancel another id
    vnd_assume(delay >= 400);
    let t = topo(false, false);
    t.g[0].lock().unwrap().data.set_undefined("a".to_string(), Data::Integer(5));
    let fsm = Fsm::new();
    let mut dm = RFsmExpressionDatamodel::new(t.g[0].clone());
    // the target is given literally or through targetexpr
    let via_expr = vnd_bool(4);
    let mut sp = mk_send(tix, via_expr, 1, 1);
    // the delay is the literal attribute (any value) or comes from a delayexpr (2 s)
    let via_delayexpr = vnd_bool(5);
    if via_delayexpr { sp.delay_ms = 0; sp.delay_expr = src("'2s'", 6); } else { sp.delay_ms = delay; }
    // the send id is the 'id' attribute ("sid1") or generated into the location "loc" (idlocation)
    let via_idlocation = vnd_bool(7);
    if via_idlocation { sp.name = String::new(); sp.name_location = "loc".to_string(); sp.parent_state_name = "st".to_string(); }
    let ok = sp.execute(&mut dm, &fsm);
    let sid: String = if via_idlocation {
        match t.g[0].lock().unwrap().data.get(&"loc".to_string()) { Some(d) => d.lock().unwrap().to_string(), None => String::new() }
    } else { "sid1".to_string() };
    let negative = !via_delayexpr && delay >= (1u64 << 63);
    // delays beyond 1000 years are outside the timer's date range and are rejected like negative ones
    let too_large = !via_delayexpr && delay > 31_622_400_000_000 && delay < (1u64 << 63);
    let illegal = negative || too_large || tix == 1;
    let pending = t.g[0].lock().unwrap().delayed_send.contains_key(sid.as_str());
    let e1 = drain_ext(&t.g[0]);
    let names = internal_names(&t.g[0]);
    vnd_cover(1601);
    vnd_check(1601, e1.is_empty() && names.iter().filter(|n| n.as_str() == "ev").count() == 0);
    vnd_check(1602, if illegal { !ok && !pending && names.len() == 1 && names[0] == "error.execution" } else { ok && pending && names.is_empty() });
    if !illegal {
        if cancel_which != 0 {
            let mut c = Cancel::new();
            // the id to cancel is given literally, or (for a generated id) read from the location through sendidexpr
            if cancel_which == 1 && via_idlocation { c.send_id_expr = src("loc", 8); } else { c.send_id = if cancel_which == 1 { "sid1".to_string() } else { "sid2".to_string() }; }
            c.execute(&mut dm, &fsm);
        }
        let still = t.g[0].lock().unwrap().delayed_send.contains_key(sid.as_str());
        vnd_check(1603, still == (cancel_which != 1));
        // other sessions are not affected
        vnd_check(1604, t.g[1].lock().unwrap().delayed_send.is_empty() && drain_ext(&t.g[1]).is_empty());
        if !vnd_is_replay() {
            // engine M: the timer entry is alive exactly when it was not cancelled, and firing it delivers iff alive
            vnd_check(1605, vnd_timer_alive(0) == (cancel_which != 1));
            let fired = vnd_timer_fire(0);
            let got = drain_ext(&t.g[0]);
            vnd_check(1606, fired == (cancel_which != 1) && got.len() == if fired { 1 } else { 0 });
        }
    }
    vnd_obs(1, if pending { 1 } else { 0 });
}

/// C16: several pending delayed sends (with and without ids) are all delivered, each exactly once; cancelling one leaves the others
fn delayed_two() {
    let ids = vnd_conc(vnd_range(0, 3, 1), 3);          // 0: both without id, 1: first with id, 2: both with ids, 3: both with the SAME id
    let cancel_first = (ids == 1 || ids == 2) && vnd_bool(2);
    let t = topo(false, false);
    let fsm = Fsm::new();
    let mut dm = RFsmExpressionDatamodel::new(t.g[0].clone());
    let mut s1 = mk_send(0, false, 1, 0); s1.event = Data::String("first".to_string()); s1.delay_ms = 40;
    s1.name = if ids >= 1 { "id1".to_string() } else { String::new() };
    let mut s2 = mk_send(0, false, 1, 0); s2.event = Data::String("second".to_string()); s2.delay_ms = 90;
    s2.name = if ids == 3 { "id1".to_string() } else if ids >= 2 { "id2".to_string() } else { String::new() };
    let ok1 = s1.execute(&mut dm, &fsm);
    let ok2 = s2.execute(&mut dm, &fsm);
    if cancel_first { let mut c = Cancel::new(); c.send_id = "id1".to_string(); c.execute(&mut dm, &fsm); }
    let _ = vnd_timer_fire(0);
    let _ = vnd_timer_fire(1);
    let got = drain_ext(&t.g[0]);
    let n1 = got.iter().filter(|e| e.name == "first").count();
    let n2 = got.iter().filter(|e| e.name == "second").count();
    vnd_cover(1620);
    // known finding 1602: a second pending send with the same id replaces the timer guard of the first one, which cancels it
    vnd_check_kf(1620, ok1 && ok2 && n1 == if cancel_first { 0 } else { 1 } && n2 == 1 && got.len() == n1 + n2, KF_SAME_SENDID_PENDING, ids == 3);
    vnd_obs(1, got.len() as u64);
    drop(fsm);
}

/// C16: the arguments are evaluated when the send executes; delivery happens once; a terminated session discards its pending sends
fn delayed_fire() {
    let a = vnd_i64(1);
    let drop_first = vnd_bool(2);
    let t = topo(false, false);
    t.g[0].lock().unwrap().data.set_undefined("a".to_string(), Data::Integer(a));
    let fsm = Fsm::new();
    let mut dm = RFsmExpressionDatamodel::new(t.g[0].clone());
    t.g[0].lock().unwrap().data.set_undefined("evn".to_string(), Data::String("ev".to_string()));
    let mut sp = mk_send(0, false, 1, 1);
    sp.delay_ms = 60;
    // the event name comes from an eventexpr that is a bare variable
    sp.event = Data::None();
    sp.event_expr = Data::Source(SourceCode::new("evn", 31));
    let ok = sp.execute(&mut dm, &fsm);
    // the data changes after the send executed (in place, through the language)
    let _ = dm.execute(&Data::Source(SourceCode::new("a = 0; evn = 'changed'", 32)));
    let before = drain_ext(&t.g[0]);
    if drop_first {
        // the session terminates: its Fsm (and timer) is dropped before the due time
        drop(fsm);
        let _ = vnd_timer_fire(0);
        let got = drain_ext(&t.g[0]);
        vnd_cover(1610);
        vnd_check(1610, ok && before.is_empty() && got.is_empty());
    } else {
        let _ = vnd_timer_fire(0);
        let got = drain_ext(&t.g[0]);
        let _ = vnd_timer_fire(0);
        let again = drain_ext(&t.g[0]);
        vnd_cover(1610);
        vnd_check(1611, ok && before.is_empty() && got.len() == 1 && again.is_empty());
        vnd_check(1612, got.len() == 1 && got[0].name == "ev" && int_param(&got[0], "p1") == Some(a) && got[0].sendid == Some("sid1".to_string()));
        vnd_check(1613, !t.g[0].lock().unwrap().delayed_send.contains_key("sid1"));
        drop(fsm);
    }
    vnd_obs(1, if ok { 1 } else { 0 });
}

/// C16 ("not early"): the delay a document spells is the delay that is scheduled — every unit of the CSS2 style duration
/// (d, h, m, s, ms in both cases) times a few magnitudes against the table of the Recommendation
fn delay_units() {
    const U: [(&str, i64); 10] = [("d", 86_400_000), ("D", 86_400_000), ("h", 3_600_000), ("H", 3_600_000), ("m", 60_000), ("M", 60_000),
                                  ("s", 1000), ("S", 1000), ("ms", 1), ("MS", 1)];
    const N: [i64; 4] = [1, 2, 30, 1500];
    let u = vnd_conc(vnd_range(0, 9, 1), 9) as usize;
    let n = vnd_conc(vnd_range(0, 3, 2), 3) as usize;
    let text = format!("{}{}", N[n], U[u].0);
    let got = parse_duration_to_milliseconds(text.as_str());
    vnd_cover(1630);
    vnd_check(1630, got == N[n] * U[u].1);
    vnd_obs(1, got as u64);
}
