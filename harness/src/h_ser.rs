//! C05 / C18: binary serializer harnesses.
use crate::vnd::*;
use rufsm::serializer::default_protocol_reader::DefaultProtocolReader;
use rufsm::serializer::default_protocol_writer::DefaultProtocolWriter;
use rufsm::serializer::protocol_reader::ProtocolReader;
use rufsm::serializer::protocol_writer::ProtocolWriter;

pub fn run(name: &str) -> bool {
    match name {
        "h_c05_uint" => h_c05_uint(),
        _ => return false,
    }
    true
}

/// for every u64: read_uint(write_uint(v)) == v, no error on either side, all written bytes consumed
pub fn h_c05_uint() {
    let v = vnd_u64(1);
    let mut w = DefaultProtocolWriter::new(Vec::<u8>::new());
    w.write_uint(v);
    vnd_check(501, !w.has_error());
    let buf: Vec<u8> = w.get_writer().clone();
    vnd_check(502, buf.len() >= 1 && buf.len() <= 9);
    let mut r = DefaultProtocolReader::new(&buf[..]);
    let back = r.read_uint();
    vnd_check(503, !r.has_error());
    vnd_cover(504);
    vnd_check(504, back == v);
    // nothing left: a further read must fail
    let _ = r.read_uint();
    vnd_check(505, r.has_error());
    vnd_obs(1, back);
    vnd_obs(2, buf.len() as u64);
}
