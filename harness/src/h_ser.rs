//! C05 / C18: binary serializer harnesses.
use crate::vnd::*;
use rufsm::datamodel::{create_data_arc, Data, SourceCode};
use rufsm::executable_content::*;
use rufsm::fsm::*;
use rufsm::serializer::default_protocol_reader::DefaultProtocolReader;
use rufsm::serializer::default_protocol_writer::DefaultProtocolWriter;
use rufsm::serializer::fsm_reader::FsmReader;
use rufsm::serializer::fsm_writer::FsmWriter;
use rufsm::serializer::protocol_reader::ProtocolReader;
use rufsm::serializer::protocol_writer::ProtocolWriter;
use std::collections::HashMap;

pub fn run(name: &str) -> bool {
    match name {
        "h_c05_uint" => h_c05_uint(),
        "h_c05_small" => h_c05_small(),
        "h_c05_str" => h_c05_str(),
        "h_c05_data" => h_c05_data(),
        "h_c05_state" => h_c05_state(),
        "h_c05_transition" => h_c05_transition(),
        "h_c05_content" => h_c05_content(),
        "h_c05_invoke" => h_c05_invoke(),
        "h_c18_trunc" => h_c18_trunc(),
        "h_c18_trunc_prim" => h_c18_trunc_prim(),
        "h_c18_sink" => h_c18_sink(),
        _ => return false,
    }
    true
}

/// Known-finding ids (see /verif/known_findings.txt)
pub const KF_STR_4096: u32 = 5002;
pub const KF_SEND_PARENT_STATE: u32 = 5003;

/// for every u64: read_uint(write_uint(v)) == v, no error on either side, all written bytes consumed
pub fn h_c05_uint() {
    let v = vnd_u64(1);
    let mut w = DefaultProtocolWriter::new(Vec::<u8>::new());
    w.write_uint(v);
    vnd_check(501, !w.has_error());
    let buf: Vec<u8> = w.get_writer().clone();
    vnd_check(502, buf.len() >= 1 && buf.len() <= 9);
    let mut r = DefaultProtocolReader::new(&buf[..]);
    let back = r.read_uint();
    vnd_check(503, !r.has_error());
    vnd_cover(504);
    vnd_check(504, back == v);
    // nothing left: a further read must fail
    let _ = r.read_uint();
    vnd_check(505, r.has_error());
    vnd_obs(1, back);
    vnd_obs(2, buf.len() as u64);
}

/// u8 / usize / bool / option-string primitives and a sequence of two values (framing: the second value starts where the first ended)
pub fn h_c05_small() {
    let a = vnd_u8(1);
    let b = vnd_bool(2);
    let c = vnd_u32(3) as usize;
    let some = vnd_range(0, 2, 4);
    let d = vnd_u64(5);
    let mut w = DefaultProtocolWriter::new(Vec::<u8>::new());
    w.write_u8(a);
    w.write_boolean(b);
    w.write_usize(c);
    // None, a non-empty string, and the empty string (present but empty is not the same as absent)
    let os = if some == 1 { Some("x\u{e9}".to_string()) } else if some == 2 { Some(String::new()) } else { None };
    w.write_option_string(&os);
    w.write_uint(d);
    w.write_boolean(!b);
    vnd_check(511, !w.has_error());
    let buf: Vec<u8> = w.get_writer().clone();
    let mut r = DefaultProtocolReader::new(&buf[..]);
    let a2 = r.read_u8();
    let b2 = r.read_boolean();
    let c2 = r.read_usize();
    let os2 = r.read_option_string();
    let d2 = r.read_uint();
    let nb2 = r.read_boolean();
    vnd_check(512, !r.has_error());
    vnd_cover(513);
    vnd_check(513, a2 == a && b2 == b && c2 == c && d2 == d && nb2 == !b);
    vnd_check(514, os2 == os);
    vnd_obs(1, a2 as u64);
    vnd_obs(2, c2 as u64);
    vnd_obs(3, d2);
}

const STR_LENS: [usize; 10] = [0, 1, 2, 15, 16, 17, 255, 256, 4095, 4096];

fn mk_string(len: usize, first: char, last: char, multibyte: u32) -> String {
    // `len` is the byte length of the result
    let mut s = String::new();
    if len == 0 { return s; }
    let mb = if multibyte == 1 { "\u{e9}" } else if multibyte == 2 { "\u{20ac}" } else if multibyte == 3 { "\u{1f600}" } else { "" };
    let mut used = 0usize;
    if len >= 1 { s.push(first); used += 1; }
    if mb.len() > 0 && used + mb.len() + 1 <= len { s.push_str(mb); used += mb.len(); }
    while used + 1 < len { s.push('a'); used += 1; }
    if used < len { s.push(last); }
    s
}

/// strings of boundary lengths with symbolic first/last ASCII char and an optional multi-byte char
pub fn h_c05_str() {
    let li = vnd_range(0, 9, 1) as usize;
    let len = STR_LENS[li];
    let first = vnd_char(2);
    let last = vnd_char(3);
    vnd_assume((first as u32) < 0x80 && (last as u32) < 0x80);
    let mb = vnd_range(0, 3, 4);
    let s = mk_string(len, first, last, mb);
    let mut w = DefaultProtocolWriter::new(Vec::<u8>::new());
    w.write_str(s.as_str());
    w.write_uint(7);
    let buf: Vec<u8> = w.get_writer().clone();
    let mut r = DefaultProtocolReader::new(&buf[..]);
    let back = r.read_string();
    let seven = r.read_uint();
    let too_long = s.len() >= 4096;
    vnd_cover(521);
    // either the round trip is exact, or the failure is visible on one of the two sides
    vnd_check_kf(521, (back == s && seven == 7 && !r.has_error()) || w.has_error(), KF_STR_4096, too_long);
    vnd_obs(1, back.len() as u64);
    vnd_obs(2, seven);
}

const INTS: [i64; 8] = [0, 1, -1, 9, 10, i64::MAX, i64::MIN, -1234567890123];

fn data_same(a: &Data, b: &Data) -> bool {
    match (a, b) {
        (Data::Integer(x), Data::Integer(y)) => x == y,
        (Data::Double(x), Data::Double(y)) => x.to_bits() == y.to_bits() || (x.is_nan() && y.is_nan()),
        (Data::String(x), Data::String(y)) => x == y,
        (Data::Boolean(x), Data::Boolean(y)) => x == y,
        (Data::Null(), Data::Null()) => true,
        (Data::None(), Data::None()) => true,
        (Data::Error(x), Data::Error(y)) => x == y,
        (Data::Source(x), Data::Source(y)) => x.source == y.source && x.source_id == y.source_id,
        (Data::Array(x), Data::Array(y)) => {
            if x.len() != y.len() { return false; }
            let mut i = 0;
            while i < x.len() {
                let l = x[i].lock().unwrap();
                let r = y[i].lock().unwrap();
                if !data_same(&l, &r) { return false; }
                i += 1;
            }
            true
        }
        (Data::Map(x), Data::Map(y)) => {
            if x.len() != y.len() { return false; }
            for (k, v) in x {
                match y.get(k) {
                    None => return false,
                    Some(o) => {
                        let l = v.lock().unwrap();
                        let r = o.lock().unwrap();
                        if !data_same(&l, &r) { return false; }
                    }
                }
            }
            true
        }
        _ => false,
    }
}

fn mk_leaf(kind: u32, tagbase: u32) -> Data {
    match kind {
        0 => Data::Null(),
        1 => Data::Integer(INTS[vnd_range(0, 7, tagbase + 1) as usize]),
        2 => {
            let k = vnd_range(0, 5, tagbase + 2);
            Data::Double(if k == 0 { 0.0 } else if k == 1 { -1.5 } else if k == 2 { 1e21 } else if k == 3 { 1.0e-7 } else if k == 4 { f64::INFINITY } else { 123456789.125 })
        }
        3 => { let c = vnd_char(tagbase + 3); vnd_assume((c as u32) < 0x80); let mut s = String::new(); s.push(c); s.push('\u{e9}'); Data::String(s) }
        4 => Data::Boolean(vnd_bool(tagbase + 4)),
        7 => Data::Error("e\u{20ac}".to_string()),
        8 => Data::Source(SourceCode::new("a + 1", vnd_u32(tagbase + 5) as usize)),
        _ => Data::None(),
    }
}

/// every Data variant, nesting depth <= 2 (array of leaf + map), symbolic scalars where the text encoding allows
pub fn h_c05_data() {
    let kind = vnd_range(0, 9, 1);
    let d = if kind == 5 {
        let k1 = vnd_range(0, 4, 2);
        let inner = Data::Array(vec![create_data_arc(mk_leaf(k1, 10))]);
        Data::Array(vec![create_data_arc(mk_leaf(4, 20)), create_data_arc(inner)])
    } else if kind == 6 {
        let mut m = HashMap::new();
        m.insert("k1".to_string(), create_data_arc(mk_leaf(vnd_range(0, 4, 3), 30)));
        m.insert("k\u{e9}".to_string(), create_data_arc(Data::Array(vec![])));
        Data::Map(m)
    } else {
        mk_leaf(kind, 40)
    };
    let mut w = DefaultProtocolWriter::new(Vec::<u8>::new());
    w.write_data(&d);
    w.write_uint(7);
    vnd_check(531, !w.has_error());
    let buf: Vec<u8> = w.get_writer().clone();
    let mut r = DefaultProtocolReader::new(&buf[..]);
    let back = r.read_data();
    let seven = r.read_uint();
    vnd_check(532, !r.has_error() && seven == 7);
    vnd_cover(533);
    vnd_check(533, data_same(&d, &back));
    vnd_obs(1, buf.len() as u64);
}

fn roundtrip(fsm: &Fsm) -> (Result<Box<Fsm>, String>, bool, usize) {
    let mut w: FsmWriter<Vec<u8>> = FsmWriter::new(Box::new(DefaultProtocolWriter::new(Vec::new())));
    w.write(fsm);
    w.close();
    let werr = w.writer.has_error();
    let buf: Vec<u8> = w.get_writer().clone();
    let n = buf.len();
    let r = Box::new(DefaultProtocolReader::new(&buf[..]));
    let mut fr = FsmReader::new(r);
    (fr.read(), werr, n)
}

fn mk_state(id: u32, parent: u32, children: &[u32]) -> State {
    let mut s = State::new("");
    s.id = id;
    s.doc_id = id;
    s.parent = parent;
    s.states = children.to_vec();
    s
}

fn params_same(a: &Option<Vec<Parameter>>, b: &Option<Vec<Parameter>>) -> bool {
    match (a, b) {
        (None, None) => true,
        (Some(x), Some(y)) => {
            if x.len() != y.len() { return false; }
            let mut i = 0;
            while i < x.len() { if x[i].name != y[i].name || x[i].expr != y[i].expr || x[i].location != y[i].location { return false; } i += 1; }
            true
        }
        _ => false,
    }
}

fn cc_same(a: &Option<CommonContent>, b: &Option<CommonContent>) -> bool {
    match (a, b) {
        (None, None) => true,
        (Some(x), Some(y)) => x.content == y.content && x.content_expr == y.content_expr,
        _ => false,
    }
}

/// state record: ids of any magnitude, every flag combination, child / onentry / onexit / history lists, donedata, data map
pub fn h_c05_state() {
    let mut fsm = Fsm::new();
    fsm.name = "m\u{e9}".to_string();
    fsm.datamodel = "rfsm-expression".to_string();
    // group 0: identifiers of any magnitude, fixed flags; group 1: every flag / list combination, fixed identifiers
    let group = vnd_range(0, 1, 20);
    fsm.binding = if vnd_bool(1) { BindingType::Late } else { BindingType::Early };
    fsm.pseudo_root = 1;
    fsm.script = if group == 1 { vnd_range(0, 5000, 2) } else { 3 };
    let mut s = State::new("s\u{20ac}1");
    s.id = if group == 0 { vnd_u32(3) } else { 1 };
    s.doc_id = if group == 0 { vnd_u32(4) } else { 2 };
    s.parent = if group == 0 { vnd_range(0, 70000, 5) } else { 0 };
    let flags_sym = group == 1;
    s.is_parallel = if flags_sym { vnd_bool(6) } else { false };
    s.is_final = if flags_sym { vnd_bool(7) } else { true };
    let ht = if flags_sym { vnd_range(0, 2, 8) } else { 1 };
    s.history_type = if ht == 1 { HistoryType::Shallow } else if ht == 2 { HistoryType::Deep } else { HistoryType::None };
    if !flags_sym || vnd_bool(9) { s.states.push(2); s.states.push(if group == 0 { vnd_range(3, 5000, 10) } else { 4 }); s.initial = if group == 0 { vnd_u32(11) } else { 12 }; }
    if !flags_sym || vnd_bool(12) { s.onentry.push(100); s.onentry.push(101); }
    if flags_sym && vnd_bool(13) { s.onexit.push(200); }
    if flags_sym && vnd_bool(14) { s.history.push(9); }
    s.transitions.push(40);
    s.transitions.push(41);
    let dd = if flags_sym { vnd_range(0, 2, 15) } else { 0 };
    if dd >= 1 {
        let mut d = DoneData::new();
        if dd == 2 {
            d.content = Some(CommonContent { content: Some("c".to_string()), content_expr: None });
        } else {
            let mut p = Parameter::new();
            p.name = "n".to_string(); p.expr = "1+1".to_string(); p.location = "".to_string();
            d.params = Some(vec![p]);
        }
        s.donedata = Some(d);
    }
    if flags_sym && vnd_bool(16) { s.data.insert("x".to_string(), create_data_arc(Data::Integer(5))); s.data.insert("y".to_string(), create_data_arc(Data::Source(SourceCode::new("[1,2]", 3)))); }
    let (sid, sdoc, sparent, spar, sfin, sinit, nchild) = (s.id, s.doc_id, s.parent, s.is_parallel, s.is_final, s.initial, s.states.len());
    let (nentry, nexit, nhist, ndata) = (s.onentry.len(), s.onexit.len(), s.history.size(), s.data.len());
    let child1 = if nchild > 1 { s.states[1] } else { 0 };
    let ddc = s.donedata.clone();
    fsm.states.push(s);
    let (res, werr, _n) = roundtrip(&fsm);
    vnd_check(541, !werr && res.is_ok());
    let f2 = res.unwrap();
    vnd_check(542, f2.name == fsm.name && f2.datamodel == fsm.datamodel && f2.binding == fsm.binding && f2.pseudo_root == 1 && f2.script == fsm.script);
    vnd_check(543, f2.states.len() == 1);
    let t = &f2.states[0];
    vnd_check(544, t.id == sid && t.doc_id == sdoc && t.parent == sparent && t.name == "s\u{20ac}1");
    vnd_check(545, t.is_parallel == spar && t.is_final == sfin && t.history_type.ordinal() as u32 == ht);
    vnd_check(546, t.states.len() == nchild && (nchild == 0 || (t.initial == sinit && t.states[0] == 2 && t.states[1] == child1)));
    vnd_check(547, t.onentry.len() == nentry && t.onexit.len() == nexit && t.history.size() == nhist && (nentry == 0 || (t.onentry[0] == 100 && t.onentry[1] == 101)) && (nexit == 0 || t.onexit[0] == 200));
    vnd_check(548, t.transitions.size() == 2 && *t.transitions.head() == 40);
    vnd_cover(549);
    let dd_ok = match (&ddc, &t.donedata) {
        (None, None) => true,
        (Some(a), Some(b)) => cc_same(&a.content, &b.content) && params_same(&a.params, &b.params),
        _ => false,
    };
    vnd_check(549, dd_ok);
    let data_ok = t.data.len() == ndata && (ndata == 0 || (data_same(&t.data.get("x").unwrap().lock().unwrap(), &Data::Integer(5)) && data_same(&t.data.get("y").unwrap().lock().unwrap(), &Data::Source(SourceCode::new("[1,2]", 3)))));
    vnd_check(550, data_ok);
    vnd_obs(1, t.id as u64);
}

/// transition records: ids, source, 0..2 targets, events, type/wildcard/cond/content flag combinations; two transitions in the hash map
pub fn h_c05_transition() {
    let mut fsm = Fsm::new();
    fsm.pseudo_root = 1;
    fsm.states.push(mk_state(1, 0, &[]));
    let mut t = Transition::new();
    // group 0: identifiers of any magnitude with fixed flags; group 1: every list-length / flag combination with small identifiers
    let group = vnd_range(0, 1, 20);
    t.id = if group == 0 { vnd_u32(1) } else { vnd_range(8, 20, 1) };
    t.doc_id = if group == 0 { vnd_u32(2) } else { 3 };
    t.source = if group == 0 { vnd_range(0, 70000, 3) } else { 2 };
    let nt = if group == 1 { vnd_range(0, 2, 4) } else { 2 };
    if nt >= 1 { t.target.push(if group == 0 { vnd_u32(5) } else { 4 }); }
    if nt >= 2 { t.target.push(17); }
    let ne = if group == 1 { vnd_range(0, 2, 6) } else { 1 };
    if ne >= 1 { t.events.push("a.b".to_string()); }
    if ne >= 2 { t.events.push("\u{e9}v".to_string()); }
    t.transition_type = if group == 1 && vnd_bool(7) { TransitionType::Internal } else { TransitionType::External };
    t.wildcard = group == 1 && vnd_bool(8);
    if group == 0 || vnd_bool(9) { t.cond = Data::Source(SourceCode::new("x > 1", 12)); }
    if group == 0 || vnd_bool(10) { t.content = if group == 0 { vnd_u32(11) } else { 9 }; }
    vnd_assume(t.content != 0 || group == 1);
    let (tid, tdoc, tsrc, ttype, twild, tcont, tcond) = (t.id, t.doc_id, t.source, t.transition_type.ordinal(), t.wildcard, t.content, t.cond.clone());
    let tgt0 = if nt >= 1 { t.target[0] } else { 0 };
    fsm.transitions.insert(t.id, t);
    let mut t2 = Transition::new();
    t2.id = 7; t2.doc_id = 8; t2.source = 1;
    vnd_assume(tid != 7);
    fsm.transitions.insert(7, t2);
    let (res, werr, _n) = roundtrip(&fsm);
    vnd_check(561, !werr && res.is_ok());
    let f2 = res.unwrap();
    vnd_check(562, f2.transitions.len() == 2 && f2.transitions.contains_key(&tid) && f2.transitions.contains_key(&7));
    let b = f2.transitions.get(&tid).unwrap();
    vnd_check(563, b.id == tid && b.doc_id == tdoc && b.source == tsrc);
    vnd_check(564, b.target.len() == nt as usize && (nt < 1 || b.target[0] == tgt0) && (nt < 2 || b.target[1] == 17));
    vnd_check(565, b.events.len() == ne as usize && (ne < 1 || b.events[0] == "a.b") && (ne < 2 || b.events[1] == "\u{e9}v"));
    vnd_cover(566);
    vnd_check(566, b.transition_type.ordinal() == ttype && b.wildcard == twild && b.content == tcont);
    vnd_check(567, data_same(&b.cond, &tcond));
    let c = f2.transitions.get(&7).unwrap();
    vnd_check(568, c.id == 7 && c.doc_id == 8 && c.source == 1 && c.target.len() == 0 && c.content == 0);
    vnd_obs(1, b.id as u64);
}

fn as_t<T: 'static>(ec: &Box<dyn ExecutableContent>) -> Option<&T> {
    ec.as_ref().as_any().downcast_ref::<T>()
}

/// executable content of every kind with symbolic ids, in two blocks
pub fn h_c05_content() {
    let mut fsm = Fsm::new();
    fsm.pseudo_root = 1;
    fsm.states.push(mk_state(1, 0, &[]));
    let kind = vnd_range(0, 8, 1);
    let id1 = vnd_u32(2);
    let x = vnd_u32(3);
    let mut block: Vec<Box<dyn ExecutableContent>> = Vec::new();
    match kind {
        0 => { let mut e = If::new(Data::Source(SourceCode::new("c", 4))); e.content = x; e.else_content = vnd_range(0, 9, 4); block.push(Box::new(e)); }
        1 => { let mut e = Expression::new(); e.content = Data::Source(SourceCode::new("a = 1", x as usize)); block.push(Box::new(e)); }
        2 => { let mut e = Script::new(); e.content.push(x); e.content.push(3); block.push(Box::new(e)); }
        3 => { block.push(Box::new(Log::new(&Some(&"lbl".to_string()), Data::Source(SourceCode::new("'m'", 2))))); }
        4 => { let mut e = ForEach::new(); e.content = x; e.index = "i".to_string(); e.item = "it".to_string(); e.array = Data::Source(SourceCode::new("arr", 9)); block.push(Box::new(e)); }
        5 => {
            let mut e = SendParameters::new();
            e.name = "sid".to_string(); e.name_location = "loc".to_string(); e.parent_state_name = "st".to_string();
            e.event = Data::String("ev".to_string()); e.event_expr = Data::None();
            e.target = Data::String("#_internal".to_string()); e.target_expr = Data::Source(SourceCode::new("t", 1));
            e.type_value = Data::String("scxml".to_string()); e.type_expr = Data::None();
            e.delay_ms = vnd_u64(5); e.delay_expr = Data::Source(SourceCode::new("'1s'", 2));
            e.name_list.push("n1".to_string());
            if vnd_bool(6) { e.content = Some(CommonContent { content: None, content_expr: Some("1".to_string()) }); }
            if vnd_bool(7) { let mut p = Parameter::new(); p.name = "p".to_string(); p.expr = "e".to_string(); p.location = "l".to_string(); e.params = Some(vec![p]); }
            block.push(Box::new(e));
        }
        6 => { let mut e = Raise::new(); e.event = "r.e".to_string(); block.push(Box::new(e)); }
        7 => { let mut e = Cancel::new(); e.send_id = "s1".to_string(); e.send_id_expr = Data::Source(SourceCode::new("x", 1)); block.push(Box::new(e)); }
        _ => { let mut e = Assign::new(); e.location = Data::Source(SourceCode::new("a", 1)); e.expr = Data::Source(SourceCode::new("2", 2)); block.push(Box::new(e)); }
    }
    let mut e2 = Raise::new(); e2.event = "second".to_string();
    block.push(Box::new(e2));
    fsm.executableContent.insert(id1, block);
    vnd_assume(id1 != 77);
    let mut b2: Vec<Box<dyn ExecutableContent>> = Vec::new();
    let mut e3 = Raise::new(); e3.event = "other".to_string();
    b2.push(Box::new(e3));
    fsm.executableContent.insert(77, b2);
    let (res, werr, _n) = roundtrip(&fsm);
    vnd_check(571, !werr && res.is_ok());
    let f2 = res.unwrap();
    vnd_check(572, f2.executableContent.len() == 2 && f2.executableContent.contains_key(&id1) && f2.executableContent.contains_key(&77));
    let a = f2.executableContent.get(&id1).unwrap();
    let o = fsm.executableContent.get(&id1).unwrap();
    vnd_check(573, a.len() == 2 && a[0].get_type() as u32 == kind && a[1].get_type() == TYPE_RAISE);
    vnd_cover(574);
    let same = match kind {
        0 => { let (p, q) = (as_t::<If>(&a[0]).unwrap(), as_t::<If>(&o[0]).unwrap()); p.content == q.content && p.else_content == q.else_content && data_same(&p.condition, &q.condition) }
        1 => { let (p, q) = (as_t::<Expression>(&a[0]).unwrap(), as_t::<Expression>(&o[0]).unwrap()); data_same(&p.content, &q.content) }
        2 => { let (p, q) = (as_t::<Script>(&a[0]).unwrap(), as_t::<Script>(&o[0]).unwrap()); p.content == q.content }
        3 => { let (p, q) = (as_t::<Log>(&a[0]).unwrap(), as_t::<Log>(&o[0]).unwrap()); p.label == q.label && data_same(&p.expression, &q.expression) }
        4 => { let (p, q) = (as_t::<ForEach>(&a[0]).unwrap(), as_t::<ForEach>(&o[0]).unwrap()); p.content == q.content && p.index == q.index && p.item == q.item && data_same(&p.array, &q.array) }
        5 => {
            let (p, q) = (as_t::<SendParameters>(&a[0]).unwrap(), as_t::<SendParameters>(&o[0]).unwrap());
            p.name == q.name && p.name_location == q.name_location && data_same(&p.event, &q.event) && data_same(&p.event_expr, &q.event_expr)
                && data_same(&p.target, &q.target) && data_same(&p.target_expr, &q.target_expr) && data_same(&p.type_value, &q.type_value)
                && data_same(&p.type_expr, &q.type_expr) && p.delay_ms == q.delay_ms && data_same(&p.delay_expr, &q.delay_expr)
                && p.name_list == q.name_list && params_same(&p.params, &q.params) && cc_same(&p.content, &q.content)
        }
        6 => { let (p, q) = (as_t::<Raise>(&a[0]).unwrap(), as_t::<Raise>(&o[0]).unwrap()); p.event == q.event }
        7 => { let (p, q) = (as_t::<Cancel>(&a[0]).unwrap(), as_t::<Cancel>(&o[0]).unwrap()); p.send_id == q.send_id && data_same(&p.send_id_expr, &q.send_id_expr) }
        _ => { let (p, q) = (as_t::<Assign>(&a[0]).unwrap(), as_t::<Assign>(&o[0]).unwrap()); data_same(&p.location, &q.location) && data_same(&p.expr, &q.expr) }
    };
    vnd_check(574, same);
    // known finding 5003: the state name a <send> needs to generate "<state>.<n>" ids for idlocation is not part of the image
    if kind == 5 {
        let (p, q) = (as_t::<SendParameters>(&a[0]).unwrap(), as_t::<SendParameters>(&o[0]).unwrap());
        vnd_check_kf(575, p.parent_state_name == q.parent_state_name, KF_SEND_PARENT_STATE, true);
    }
    let r2 = as_t::<Raise>(&a[1]).unwrap();
    let b = f2.executableContent.get(&77).unwrap();
    vnd_check(575, r2.event == "second" && b.len() == 1 && as_t::<Raise>(&b[0]).unwrap().event == "other");
    vnd_obs(1, a[0].get_type() as u64);
}

/// invoke records
pub fn h_c05_invoke() {
    let mut fsm = Fsm::new();
    fsm.pseudo_root = 1;
    let mut s = mk_state(1, 0, &[]);
    s.name = "st".to_string();
    let mut inv = Invoke::new();
    inv.doc_id = vnd_u32(1);
    let with_id = vnd_bool(2);
    if with_id { inv.invoke_id = "iv".to_string(); }
    inv.parent_state_name = "st".to_string();
    inv.autoforward = vnd_bool(3);
    inv.finalize = vnd_u32(4);
    inv.external_id_location = "idl".to_string();
    if vnd_bool(5) { inv.src = Data::String("file.scxml".to_string()); } else { inv.src_expr = Data::Source(SourceCode::new("s", 3)); }
    inv.type_name = Data::String("scxml".to_string());
    inv.type_expr = Data::Source(SourceCode::new("t", 4));
    if vnd_bool(6) { inv.content = Some(CommonContent { content: Some("<scxml/>".to_string()), content_expr: None }); }
    if vnd_bool(7) { let mut p = Parameter::new(); p.name = "p".to_string(); p.expr = "1".to_string(); inv.params = Some(vec![p]); }
    inv.name_list.push("a".to_string());
    inv.name_list.push("b".to_string());
    let orig = inv.clone();
    s.invoke.push(inv);
    let mut inv2 = Invoke::new();
    inv2.doc_id = 9; inv2.invoke_id = "second".to_string();
    s.invoke.push(inv2);
    fsm.states.push(s);
    let (res, werr, _n) = roundtrip(&fsm);
    vnd_check(581, !werr && res.is_ok());
    let f2 = res.unwrap();
    vnd_check(582, f2.states.len() == 1 && f2.states[0].invoke.size() == 2);
    let b = f2.states[0].invoke.head();
    vnd_check(583, b.doc_id == orig.doc_id && b.invoke_id == orig.invoke_id && b.autoforward == orig.autoforward && b.finalize == orig.finalize && b.external_id_location == orig.external_id_location);
    vnd_check(584, data_same(&b.src, &orig.src) && data_same(&b.src_expr, &orig.src_expr) && data_same(&b.type_name, &orig.type_name) && data_same(&b.type_expr, &orig.type_expr));
    vnd_cover(585);
    vnd_check(585, cc_same(&b.content, &orig.content) && params_same(&b.params, &orig.params) && b.name_list == orig.name_list);
    // the generated-id prefix is only needed (and only persisted) when no id is given
    vnd_check(586, with_id || b.parent_state_name == "st");
    vnd_obs(1, b.doc_id as u64);
}

// ------------------------------------------------------------------------------------------------ C18
fn sample_model(variant: u32) -> Fsm {
    let mut fsm = Fsm::new();
    fsm.pseudo_root = 1;
    fsm.name = "m".to_string();
    let mut s1 = mk_state(1, 0, &[2, 3]);
    s1.initial = 11;
    s1.name = "root".to_string();
    let mut s2 = mk_state(2, 1, &[]);
    s2.name = "a".to_string();
    s2.onentry.push(100);
    s2.transitions.push(12);
    let mut s3 = mk_state(3, 1, &[]);
    s3.name = "b".to_string();
    s3.is_final = true;
    if variant >= 1 {
        let mut d = DoneData::new();
        d.content = Some(CommonContent { content: Some("x".to_string()), content_expr: None });
        s3.donedata = Some(d);
        s2.data.insert("v".to_string(), create_data_arc(Data::Integer(1)));
    }
    if variant >= 2 {
        let mut inv = Invoke::new();
        inv.doc_id = 5; inv.invoke_id = "i".to_string(); inv.src = Data::String("x.scxml".to_string());
        s2.invoke.push(inv);
        s2.onexit.push(101);
    }
    fsm.states.push(s1);
    fsm.states.push(s2);
    fsm.states.push(s3);
    let mut t = Transition::new(); t.id = 11; t.doc_id = 1; t.source = 1; t.target.push(2);
    fsm.transitions.insert(11, t);
    let mut t = Transition::new(); t.id = 12; t.doc_id = 2; t.source = 2; t.target.push(3); t.events.push("go".to_string()); t.cond = Data::Source(SourceCode::new("true", 1)); t.content = 102;
    fsm.transitions.insert(12, t);
    let mut b: Vec<Box<dyn ExecutableContent>> = Vec::new();
    let mut r = Raise::new(); r.event = "e1".to_string(); b.push(Box::new(r));
    b.push(Box::new(Log::new(&Some(&"l".to_string()), Data::Source(SourceCode::new("'x'", 2)))));
    fsm.executableContent.insert(100, b);
    if variant >= 2 {
        let mut b: Vec<Box<dyn ExecutableContent>> = Vec::new();
        let mut e = SendParameters::new(); e.event = Data::String("ev".to_string()); e.delay_ms = 1000; b.push(Box::new(e));
        let mut e = If::new(Data::Source(SourceCode::new("c", 4))); e.content = 100; b.push(Box::new(e));
        fsm.executableContent.insert(101, b);
        let mut b: Vec<Box<dyn ExecutableContent>> = Vec::new();
        let mut e = Assign::new(); e.location = Data::Source(SourceCode::new("v", 1)); e.expr = Data::Source(SourceCode::new("2", 2)); b.push(Box::new(e));
        fsm.executableContent.insert(102, b);
    }
    fsm
}

/// every prefix of a written image must be rejected (Err), never accepted and never panic
pub fn h_c18_trunc() {
    let variant = vnd_range(0, 2, 1);
    let fsm = sample_model(variant);
    let mut w: FsmWriter<Vec<u8>> = FsmWriter::new(Box::new(DefaultProtocolWriter::new(Vec::new())));
    w.write(&fsm);
    w.close();
    let buf: Vec<u8> = w.get_writer().clone();
    vnd_assume(buf.len() >= 2);
    let cut = vnd_range(0, buf.len() as u32 - 1, 2) as usize;
    let r = Box::new(DefaultProtocolReader::new(&buf[..cut]));
    let mut fr = FsmReader::new(r);
    let res = fr.read();
    vnd_cover(1801);
    vnd_check(1801, res.is_err());
    // the complete image is accepted
    let r = Box::new(DefaultProtocolReader::new(&buf[..]));
    let mut fr = FsmReader::new(r);
    vnd_check(1802, fr.read().is_ok());
    vnd_obs(1, buf.len() as u64);
}

/// truncated primitive stream: the reader's error state is set and stays set; no panic
pub fn h_c18_trunc_prim() {
    let mut w = DefaultProtocolWriter::new(Vec::<u8>::new());
    w.write_str("hello world, this is longer than fifteen");
    w.write_uint(vnd_u64(1));
    w.write_data(&Data::Array(vec![create_data_arc(Data::Integer(12345)), create_data_arc(Data::String("x".to_string()))]));
    w.write_boolean(true);
    let buf: Vec<u8> = w.get_writer().clone();
    let cut = vnd_range(0, buf.len() as u32 - 1, 2) as usize;
    let mut r = DefaultProtocolReader::new(&buf[..cut]);
    let _s = r.read_string();
    let _u = r.read_uint();
    let _d = r.read_data();
    let _b = r.read_boolean();
    vnd_cover(1811);
    vnd_check(1811, r.has_error());
}

/// A byte sink with fault injection: short writes (accepts 1..=len bytes per call) and a failure at a chosen call.
pub struct VSink {
    pub buf: Vec<u8>,
    pub calls: u32,
    pub fail_at: u32,
    pub short: bool,
    /// short writes are injected for 6 consecutive eligible calls starting at this call index
    pub short_from: u32,
    pub failed: bool,
    /// the sink accepts every write and fails only when it is flushed (a buffered device)
    pub fail_flush: bool,
}

impl std::io::Write for VSink {
    fn write(&mut self, b: &[u8]) -> std::io::Result<usize> {
        let c = self.calls;
        self.calls += 1;
        if c == self.fail_at {
            self.failed = true;
            return Err(std::io::Error::new(std::io::ErrorKind::Other, "injected"));
        }
        let mut k = b.len();
        if self.short && b.len() > 1 && c >= self.short_from && c < self.short_from + 6 {
            // engine M: symbolic accepted count; replay: the recorded value
            k = vnd_range(1, b.len() as u32, 9000 + c) as usize;
        }
        let mut i = 0;
        while i < k { self.buf.push(b[i]); i += 1; }
        Ok(k)
    }
    fn flush(&mut self) -> std::io::Result<()> {
        if self.fail_flush {
            self.failed = true;
            return Err(std::io::Error::new(std::io::ErrorKind::Other, "injected at flush"));
        }
        Ok(())
    }
}

/// short writes must not lose bytes; a failing write must be visible through has_error()
pub fn h_c18_sink() {
    let variant = vnd_range(0, 1, 1);
    let fsm = sample_model(variant);
    // reference image
    let mut w0: FsmWriter<Vec<u8>> = FsmWriter::new(Box::new(DefaultProtocolWriter::new(Vec::new())));
    w0.write(&fsm);
    w0.close();
    let reference: Vec<u8> = w0.get_writer().clone();
    let short = vnd_bool(2);
    // 0..=60: the write call that fails; 61: every write succeeds and the flush at close() fails
    let fail_sel = if short { 0xffff_ffff } else { vnd_range(0, 61, 3) };
    let fail_flush = fail_sel == 61;
    let fail_at = if fail_flush { 0xffff_ffff } else { fail_sel };
    let short_from = if short { vnd_range(0, 3, 4) * 12 } else { 0 };
    let sink = VSink { buf: Vec::new(), calls: 0, fail_at, short, short_from, failed: false, fail_flush };
    let mut w: FsmWriter<VSink> = FsmWriter::new(Box::new(DefaultProtocolWriter::new(sink)));
    w.write(&fsm);
    w.close();
    let err = w.writer.has_error();
    let out = w.get_writer();
    vnd_cover(1821);
    if out.failed {
        vnd_check(1821, err);
    } else {
        vnd_check(1822, !err && out.buf == reference);
    }
    // (the number of bytes emitted before an injected failure depends on hash-map iteration order: not an observable)
    vnd_obs(1, if out.failed { 0 } else { out.buf.len() as u64 });
}
