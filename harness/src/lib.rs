//! Verification harnesses for rFSM.  Every `h_*` function is run three ways (see DESIGN.md §2.1):
//! symbolically by engine M (mirsym) from this crate's MIR, by Kani (cfg(kani)), and natively (replay).
#![allow(non_snake_case)]
#![allow(clippy::all)]
pub mod vnd;
pub mod h_ser;
pub mod h_match;
pub mod sc;
pub mod h_fsm;
pub mod h_loop;
pub mod h_expr;
pub mod h_content;
pub mod h_plat;
pub mod h_locks;
pub mod h_dm;
#[cfg(feature = "xml")]
pub mod h_xml;
#[cfg(feature = "xml")]
pub mod h_inv;

pub use vnd::*;

/// name -> harness dispatch for the native replay binary
pub fn run_harness(name: &str) -> bool {
    if h_ser::run(name) { return true; }
    if h_match::run(name) { return true; }
    if h_fsm::run(name) { return true; }
    if h_loop::run(name) { return true; }
    if h_expr::run(name) { return true; }
    if h_content::run(name) { return true; }
    if h_plat::run(name) { return true; }
    if h_locks::run(name) { return true; }
    if h_dm::run(name) { return true; }
    #[cfg(feature = "xml")]
    if h_xml::run(name) { return true; }
    #[cfg(feature = "xml")]
    if h_inv::run(name) { return true; }
    false
}
