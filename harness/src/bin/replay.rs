//! Native replay: runs one harness with the input vector given on the command line.
//! usage: replay <harness> <type:value,type:value,...>
#[cfg(kani)]
fn main() {}

#[cfg(not(kani))]
use vharness::vnd::REPLAY;

#[cfg(not(kani))]
fn main() {
    let args: Vec<String> = std::env::args().collect();
    if args.len() < 2 {
        println!("usage: replay <harness> [inputs]");
        std::process::exit(2);
    }
    let name = args[1].clone();
    let mut vals = Vec::new();
    if args.len() > 2 {
        for p in args[2].split(',') {
            if p.is_empty() { continue; }
            let mut it = p.splitn(2, ':');
            let t = it.next().unwrap().to_string();
            let v = it.next().unwrap_or("0").to_string();
            vals.push((t, v));
        }
    }
    {
        let mut r = REPLAY.lock().unwrap();
        r.values = vals;
        r.pos = 0;
    }
    let res = std::panic::catch_unwind(|| {
        vharness::run_harness(&name)
    });
    match res {
        Ok(true) => {}
        Ok(false) => { println!("UNKNOWN-HARNESS {}", name); std::process::exit(2); }
        Err(_) => { println!("PANIC"); }
    }
    let r = match REPLAY.lock() { Ok(g) => g, Err(p) => p.into_inner() };
    if r.exhausted { println!("REPLAY-EXHAUSTED"); }
    println!("DONE failed={:?}", r.failed);
    // do not wait for timer / session threads
    std::process::exit(0);
}
