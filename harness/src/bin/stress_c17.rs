//! Native demonstration for the C17 lock-order finding: the host starts sessions (start_fsm: executor-state lock E, then the
//! I/O processor lock P) while a session sends through the SCXML processor (P, then E inside send_to_session).
//! Exit code 0: both loops finished; exit code 3: no progress for 10 s (deadlock).
#[cfg(kani)]
fn main() {}

#[cfg(not(kani))]
fn main() {
    use rufsm::actions::ActionWrapper;
    use rufsm::fsm::*;
    use std::sync::atomic::{AtomicU64, Ordering};
    use std::sync::Arc;
    let n: u64 = std::env::args().nth(1).and_then(|s| s.parse().ok()).unwrap_or(3000);
    let t = vharness::h_plat::topo(false, false);
    let progress = Arc::new(AtomicU64::new(0));
    let done = Arc::new(AtomicU64::new(0));
    // thread B: session 1 sends to session 2 through the processor, exactly as Datamodel::send does
    let (g1, p) = { let gd = t.g[0].lock().unwrap(); (t.g[0].clone(), gd.io_processors.get("scxml").unwrap().clone()) };
    let (pr, dn) = (progress.clone(), done.clone());
    let b = std::thread::spawn(move || {
        let mut i = 0;
        while i < n * 50 {
            { let mut icg = p.lock().unwrap(); icg.send(&g1, "#_scxml_2", Event::new_simple("x")); }
            pr.fetch_add(1, Ordering::Relaxed);
            i += 1;
        }
        dn.fetch_add(1, Ordering::Relaxed);
    });
    // thread A: the host starts (and cancels) sessions
    let ex = t.ex.clone();
    let (pr, dn) = (progress.clone(), done.clone());
    let a = std::thread::spawn(move || {
        let mut i = 0;
        while i < n {
            let mut fsm = Box::new(Fsm::new());
            fsm.datamodel = "null".to_string();
            fsm.pseudo_root = 1;
            let mut s1 = State::new("root"); s1.id = 1; s1.doc_id = 1;
            fsm.states.push(s1);
            let s = start_fsm_with_data_and_finish_mode(fsm, ActionWrapper::new(), Box::new(ex.clone()), &[], FinishMode::DISPOSE);
            let _ = s.sender.send(Box::new(Event::new_simple(EVENT_CANCEL_SESSION)));
            pr.fetch_add(1, Ordering::Relaxed);
            i += 1;
        }
        dn.fetch_add(1, Ordering::Relaxed);
    });
    let rx = t.g[1].lock().unwrap().externalQueue.receiver.clone();
    let mut last = 0u64;
    let mut stale = 0;
    loop {
        std::thread::sleep(std::time::Duration::from_millis(500));
        // keep session 2's queue short
        loop { let r = rx.lock().unwrap().try_recv(); if r.is_err() { break; } }
        if done.load(Ordering::Relaxed) == 2 { println!("FINISHED progress={}", progress.load(Ordering::Relaxed)); let _ = a.join(); let _ = b.join(); std::process::exit(0); }
        let now = progress.load(Ordering::Relaxed);
        if now == last { stale += 1; } else { stale = 0; }
        last = now;
        if stale >= 20 { println!("DEADLOCK no progress for 10 s at progress={}", now); std::process::exit(3); }
    }
}
