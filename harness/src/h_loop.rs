//! C03 (run to completion) and C07(b) (shutdown): the real `mainEventLoop` + `exitInterpreter` on a pre-loaded external queue,
//! compared token by token with the reference run loop of `sc.rs`.
use crate::sc::*;
use crate::vnd::*;
use rufsm::fsm::*;

macro_rules! harnesses {
    ($($name:ident => $body:expr),* $(,)?) => {
        pub fn run(name: &str) -> bool {
            match name { $( stringify!($name) => $name(), )* _ => return false, }
            true
        }
        $( pub fn $name() { $body } )*
    };
}

harnesses! {
    // per-change tier: first transition fully symbolic, second one triggered by the internal event i1
    h_loop_s0 => sc_loop(0, 2, 2, true), h_loop_s1 => sc_loop(1, 2, 2, true), h_loop_s6 => sc_loop(6, 2, 2, true),
    // deep tier
    h_loop_s3 => sc_loop(3, 2, 1, true), h_loop_s7 => sc_loop(7, 2, 1, true), h_loop_s4 => sc_loop(4, 2, 2, true),
    h_loopf_s0 => sc_loop(0, 2, 2, false), h_loopf_s1 => sc_loop(1, 2, 2, false), h_loopf_s6 => sc_loop(6, 2, 2, false),
    h_loop3_s0 => sc_loop(0, 3, 2, true),
    // reader-built root (never in the configuration)
    h_loopi_s1 => sc_loop_r(1, 2, 2, true, true), h_loopi_s6 => sc_loop_r(6, 2, 2, true, true),
    h_exit => exit_interpreter(),
    h_queues => queues(),
}

/// transition for the loop harness: event in {event-less, e1, i1}, single target, optional raise of "i1" in its body
pub fn loop_transition(sh: &Shape, k: u32, restricted: bool) -> (MT, u32, u32) {
    let b = 100 * (k + 1);
    let n = sh.n as u32;
    let src = vnd_conc(vnd_range(2, n, b + 1), n);
    let tgt = vnd_conc(vnd_range(2, n, b + 3), n);
    let evk = if restricted { 2 } else { vnd_range(0, 2, b + 6) };
    let ev = if evk == 0 { 0 } else if evk == 1 { 1 } else { 5 };
    // an event-less transition is guarded (value chosen by the solver); others are unguarded
    let g = if ev == 0 { vnd_range(1, 2, b + 7) } else { 0 };
    let raise = if restricted { 0 } else { vnd_range(0, 1, b + 8) };
    let t = MT { src, tgt: [tgt, 0], ntgt: 1, internal: false, ev, has_cond: g != 0 };
    vnd_assume(conformant_t(sh, &t));
    // no event-less self loops / re-entering loops: the target is outside the source's subtree and not an ancestor of it
    if ev == 0 { vnd_assume(tgt != src && !sh.is_desc(tgt, src) && !sh.is_desc(src, tgt)); }
    (t, if g == 2 { 0 } else { 1 }, raise)
}

/// The real main event loop over `kext` external events followed by the platform cancel event (or a top-level final state).
fn sc_loop(shape_ix: u32, nt: u32, kext: u32, light: bool) { sc_loop_r(shape_ix, nt, kext, light, false) }

fn sc_loop_r(shape_ix: u32, nt: u32, kext: u32, light: bool, root_internal: bool) {
    let mut sh = shape_by_index(shape_ix);
    sh.root_internal = root_internal;
    let mut ts = Vec::new();
    let mut guards = Vec::new();
    let mut effects: Vec<(u32, u32)> = Vec::new();
    let mut k = 0;
    while k < nt {
        let (t, g, raise) = loop_transition(&sh, k, light && k >= 1);
        if raise == 1 { effects.push((X_TRANS + k, 1)); }
        ts.push(t); guards.push(g);
        k += 1;
    }
    // at most one event-less transition (two could ping-pong forever: a live-locking document, outside the bound)
    let mut nevl = 0;
    for t in &ts { if t.ev == 0 { nevl += 1; } }
    vnd_assume(nevl <= 1);
    // one onentry body may raise "i1" as well
    let es = if light { 1 } else { vnd_range(1, sh.n as u32, 30) };
    if es >= 2 && !sh.is_hist(es) { effects.push((X_ENTRY + es, 1)); }
    let m = Model { sh, ts, late: false };
    let confs = m.sh.configs_of(1);
    let ci = vnd_range(0, confs.len() as u32 - 1, 50) as usize;
    let mut conf = m.sh.ordered(confs[ci]);
    if root_internal { conf.reverse(); }      // the h_loopi_* family also starts from a configuration list in reverse document order
    let hv = HV::new();
    let mut externals = Vec::new();
    let mut i = 0;
    while i < kext { externals.push(if (light && i > 0) || vnd_bool(70 + i) { 1 } else { 2 }); i += 1; }
    externals.push(EXT_CANCEL);
    let has_parent = true;
    let pending = if light { 0 } else { vnd_range(0, 1, 81) };      // an internal event already queued when the loop starts

    let mut fsm = build_fsm(&m);
    let g = new_global();
    put_config(&g, &conf);
    {
        let mut gd = g.lock().unwrap();
        gd.running = true;
        gd.final_configuration = Some(Vec::new());
        if has_parent { gd.parent_session_id = Some(7); gd.caller_invoke_id = Some("inv1".to_string()); }
        if pending == 1 { gd.enqueue_internal(Event::new_simple("i1")); }
        for x in &externals {
            let name = if *x == 1 { "e1" } else if *x == 2 { "e2" } else { EVENT_CANCEL_SESSION };
            gd.externalQueue.enqueue(Box::new(Event::new_simple(name)));
        }
    }
    let mut s = 1u32;
    while s <= m.sh.n as u32 { fsm.states[(s - 1) as usize].isFirstEntry = false; s += 1; }
    let mut dm = VDm::new(g.clone());
    dm.guards = guards.clone();
    dm.effects = effects.clone();
    dm.raise_cap = 6;

    // ---- the reference (first: the bound on the document is an assumption and has to precede the code it constrains)
    let r = Ref { m: &m };
    let mut fe = 0u32;
    let q0: Vec<u32> = if pending == 1 { vec![1] } else { Vec::new() };
    let out = r.run(&conf, &hv, &q0, &externals, &guards, &effects, 6, &mut fe, has_parent, 12);
    // documents that do not settle within 12 microsteps (live-locking documents) are outside the bound
    vnd_assume(!out.blocked);

    // ---- the real code
    fsm.vh_mainEventLoop(&mut dm);

    vnd_cover(301);
    // C03: the complete observable trace (events made current, guard evaluations, content bodies) is the reference macrostep trace
    vnd_check(301, dm.log == out.log);
    let gd = g.lock().unwrap();
    // C03 / C07: nothing is left half done: configuration empty, not running, internal work finished or dropped with the session
    vnd_check(302, gd.configuration.size() == 0 && !gd.running);
    // C07(b): final configuration reported = configuration when the loop ended, in order
    let mut fc = Vec::new();
    for s in &out.final_conf { fc.push(format!("s{}", s)); }
    vnd_check(702, gd.final_configuration == Some(fc));
    // C07(b): done.invoke is sent to the parent iff a top-level final state was reached and a parent exists
    let mut done_sent = 0;
    for (t, n, has_inv) in &dm.sends { if n.starts_with("done.invoke.") && t == "#_scxml_7" && *has_inv && n == "done.invoke.inv1" { done_sent += 1; } }
    vnd_check(703, done_sent == if out.done_invoke { 1 } else { 0 } && dm.sends.len() == done_sent);
    vnd_obs(1, dm.log.len() as u64);
    vnd_obs(2, done_sent as u64);
}

/// exitInterpreter alone: every active state's onexit runs once in exit order, the final configuration is reported,
/// done.invoke goes to the parent iff a parent session exists and a top-level final state is active
fn exit_interpreter() {
    let ix = vnd_range(0, NSHAPES - 1, 1);
    let mut sh = shape_by_index(ix);
    sh.root_internal = vnd_bool(5);
    let m = Model { sh, ts: Vec::new(), late: false };
    let confs = m.sh.configs_of(1);
    let ci = vnd_range(0, confs.len() as u32 - 1, 2) as usize;
    // the configuration is kept in entry order, which need not be document order: both extremes are explored
    let mut conf = m.sh.ordered(confs[ci]);
    if vnd_bool(6) { conf.reverse(); }
    let has_parent = vnd_bool(3);
    let report = vnd_bool(4);
    let mut fsm = build_fsm(&m);
    let g = new_global();
    put_config(&g, &conf);
    {
        let mut gd = g.lock().unwrap();
        if report { gd.final_configuration = Some(Vec::new()); }
        if has_parent { gd.parent_session_id = Some(7); gd.caller_invoke_id = Some("inv1".to_string()); }
    }
    let mut dm = VDm::new(g.clone());
    fsm.vh_exitInterpreter(&mut dm);
    let mut expect = Vec::new();
    let mut ex = m.sh.ordered(mask_of(&conf)); ex.reverse();
    let mut top_final = false;
    for s in &ex { expect.push(X_EXIT + *s); if m.sh.kind[*s as usize] == K_FINAL && m.sh.parent[*s as usize] == 1 { top_final = true; } }
    vnd_cover(710);
    vnd_check(710, dm.log == expect);
    let gd = g.lock().unwrap();
    vnd_check(711, gd.configuration.size() == 0);
    let mut fc = Vec::new();
    for s in &conf { fc.push(format!("s{}", s)); }
    vnd_check(712, if report { gd.final_configuration == Some(fc) } else { gd.final_configuration.is_none() });
    let want = if has_parent && top_final { 1 } else { 0 };
    let mut done_sent = 0;
    for (t, n, has_inv) in &dm.sends { if t == "#_scxml_7" && *has_inv && n == "done.invoke.inv1" { done_sent += 1; } }
    vnd_check(713, done_sent == want && dm.sends.len() == want);
    vnd_obs(1, dm.log.len() as u64);
}

/// the anchor points that feed the two queues: <raise> and enqueue_internal go to the internal queue, nothing else does
fn queues() {
    use rufsm::executable_content::{ExecutableContent, Raise};
    let g = new_global();
    let mut dm = VDm::new(g.clone());
    let fsm = Fsm::new();
    let mut r = Raise::new();
    r.event = "i1".to_string();
    let n = vnd_range(1, 3, 1);
    let mut i = 0;
    while i < n { r.execute(&mut dm, &fsm); i += 1; }
    g.lock().unwrap().enqueue_internal(Event::new_simple("i2"));
    let q = get_queue(&g);
    vnd_cover(310);
    vnd_check(310, q.len() == n as usize + 1 && q[0] == 1 && q[n as usize] == 2);
    vnd_obs(1, q.len() as u64);
}
