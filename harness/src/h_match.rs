//! C19: event descriptor matching.
use crate::vnd::*;
use rufsm::fsm::*;

pub fn run(name: &str) -> bool {
    match name {
        "h_c19_k" => h_c19_k(),
        "h_c19_m" => h_c19_m(),
        "h_c19_mq" => h_c19_mq(),
        "h_c19_k2" => h_c19_k2(),
        "h_c19_wild" => h_c19_wild(),
        _ => return false,
    }
    true
}


/// reference: split at '.', descriptor tokens must be a prefix of the name tokens
fn oracle_match(desc: &[char], name: &[char]) -> bool {
    // token-wise prefix <=> name == desc, or name starts with desc followed by '.'
    if desc.len() > name.len() { return false; }
    let mut i = 0;
    while i < desc.len() { if desc[i] != name[i] { return false; } i += 1; }
    name.len() == desc.len() || name[desc.len()] == '.'
}

/// returns v as a path-constant (forks in engine M, identity natively)
fn conc(v: usize, max: usize) -> usize { let mut i = 0; while i < max { if v == i { return i; } i += 1; } max }

fn to_string(cs: &[char]) -> String { let mut s = String::new(); let mut i = 0; while i < cs.len() { s.push(cs[i]); i += 1; } s }

fn run_match(descs: &[&[char]], name: &[char], base: u32) {
    let mut t = Transition::new();
    let mut expected = false;
    let mut non_ascii = false;
    let mut k = 0;
    while k < descs.len() {
        t.events.push(to_string(descs[k]));
        if oracle_match(descs[k], name) { expected = true; }
        let mut j = 0;
        while j < descs[k].len() { if (descs[k][j] as u32) >= 0x80 { non_ascii = true; } j += 1; }
        k += 1;
    }
    let got = t.vh_nameMatch(to_string(name).as_str());
    vnd_cover(base);
    let _ = non_ascii;
    vnd_check(base, got == expected);
    vnd_obs(1, got as u64);
}

/// Kani bound: one descriptor of 1 arbitrary char, name of 0..=3 arbitrary chars
pub fn h_c19_k() {
    let d = [vnd_char(1)];
    let n = vnd_range(0, 3, 2) as usize;
    let name = [vnd_char(3), vnd_char(4), vnd_char(5)];
    run_match(&[&d[..]], &name[..n], 1900);
}

/// Kani bound (bit-precise cross-check of the str model): one descriptor of 1 arbitrary char, name of exactly 2 arbitrary chars
pub fn h_c19_k2() {
    let d = [vnd_char(1)];
    let name = [vnd_char(3), vnd_char(4)];
    run_match(&[&d[..]], &name[..], 1900);
}

/// engine M bound: 1..2 descriptors of 1..3 chars, name of 0..6 chars, all chars symbolic
pub fn h_c19_m() {
    let nd = conc(vnd_range(1, 2, 1) as usize, 2);
    let l1 = conc(vnd_range(1, 3, 2) as usize, 3);
    let l2 = conc(vnd_range(1, 2, 3) as usize, 2);
    let d1 = [vnd_char(4), vnd_char(5), vnd_char(6)];
    let d2 = [vnd_char(7), vnd_char(8)];
    let n = conc(vnd_range(0, 6, 9) as usize, 6);
    let name = [vnd_char(10), vnd_char(11), vnd_char(12), vnd_char(13), vnd_char(14), vnd_char(15)];
    if nd == 1 { run_match(&[&d1[..l1]], &name[..n], 1910); } else { run_match(&[&d1[..l1], &d2[..l2]], &name[..n], 1910); }
}

/// engine M, per-change bound: 1..2 descriptors of 1..2 / 1 chars, name of 0..4 chars
pub fn h_c19_mq() {
    let nd = conc(vnd_range(1, 2, 1) as usize, 2);
    let l1 = conc(vnd_range(1, 2, 2) as usize, 2);
    let d1 = [vnd_char(4), vnd_char(5)];
    let d2 = [vnd_char(7)];
    let n = conc(vnd_range(0, 4, 9) as usize, 4);
    let name = [vnd_char(10), vnd_char(11), vnd_char(12), vnd_char(13)];
    if nd == 1 { run_match(&[&d1[..l1]], &name[..n], 1910); } else { run_match(&[&d1[..l1], &d2[..]], &name[..n], 1910); }
}

/// wildcard matches every name
pub fn h_c19_wild() {
    let mut t = Transition::new();
    t.wildcard = true;
    t.events.push("*".to_string());
    let n = vnd_range(0, 3, 1) as usize;
    let name = [vnd_char(2), vnd_char(3), vnd_char(4)];
    vnd_cover(1920);
    vnd_check(1920, t.vh_nameMatch(to_string(&name[..n]).as_str()));
}

#[cfg(kani)]
mod proofs {
    #[kani::proof]
    #[kani::unwind(14)]
    fn k_c19() { super::h_c19_k() }
    #[kani::proof]
    #[kani::unwind(10)]
    fn k_c19_2() { super::h_c19_k2() }
    #[kani::proof]
    #[kani::unwind(14)]
    fn k_c19_wild() { super::h_c19_wild() }
}
