//! C09: In(), system variables, _event fields, data binding.
use crate::sc::*;
use crate::vnd::*;
use rufsm::datamodel::expression_engine::RFsmExpressionDatamodel;
use rufsm::datamodel::*;
use rufsm::fsm::*;

macro_rules! harnesses {
    ($($name:ident => $body:expr),* $(,)?) => {
        pub fn run(name: &str) -> bool {
            match name { $( stringify!($name) => $name(), )* _ => return false, }
            true
        }
        $( pub fn $name() { $body } )*
    };
}

harnesses! {
    h_c09_in => in_predicate(),
    h_c09_readonly => readonly_system_variables(),
    h_c09_event => event_fields(),
    h_c09_binding => binding(),
    h_c09_in_shared => in_shared(),
}

pub const KF_EVENT_FIELD_WRITABLE: u32 = 901;
pub const KF_EVENT_DATA_MEMBER_WRITABLE: u32 = 902;

fn src(t: &str, id: usize) -> Data { Data::Source(SourceCode::new(t, id)) }

/// In(id) is true exactly when the state is in the configuration at the moment of evaluation (rfsm-expression and null datamodel)
fn in_predicate() {
    let sh = shape_by_index(2);
    let m = Model { sh, ts: Vec::new(), late: false };
    let mut fsm = build_fsm(&m);
    let g = new_global();
    // an arbitrary subset of the states is "active" (the predicate does not depend on legality)
    let mask = vnd_range(0, (1 << (m.sh.n + 1)) - 1, 1) & !1;
    let q = vnd_conc(vnd_range(1, m.sh.n as u32, 2), m.sh.n as u32);
    // the configuration is an ordered set in entry order, which need not be ascending by id
    let descending = vnd_bool(4);
    {
        let mut gd = g.lock().unwrap();
        let n = m.sh.n as u32;
        let mut i = 1u32;
        while i <= n { let s = if descending { n + 1 - i } else { i }; if mask & (1 << s) != 0 { gd.configuration.add(s); } i += 1; }
    }
    let which = vnd_bool(3);
    let text = format!("In('s{}')", q);
    let r = if which {
        let mut dm = RFsmExpressionDatamodel::new(g.clone());
        dm.add_functions(&mut fsm);
        dm.execute_condition(&src(text.as_str(), 0))
    } else {
        let mut dm = NullDatamodel::new(g.clone());
        dm.add_functions(&mut fsm);
        dm.execute_condition(&Data::Source(SourceCode::new(text.as_str(), 0)))
    };
    vnd_cover(901);
    vnd_check(901, r == Ok(mask & (1 << q) != 0));
    // an unknown state name is an error (null model) or false (rfsm-expression), never true
    let r2 = if which {
        let mut dm = RFsmExpressionDatamodel::new(g.clone());
        dm.add_functions(&mut fsm);
        dm.execute_condition(&src("In('nosuchstate')", 0))
    } else {
        let mut dm = NullDatamodel::new(g.clone());
        dm.add_functions(&mut fsm);
        dm.execute_condition(&Data::Source(SourceCode::new("In('nosuchstate')", 0)))
    };
    vnd_check(902, r2 != Ok(true));
    vnd_obs(1, if r == Ok(true) { 1 } else { 0 });
}

fn value_of(g: &GlobalDataArc, expr: &str) -> String {
    let r = rufsm::expression_engine::parser::ExpressionParser::execute(expr.to_string(), &mut g.lock().unwrap());
    match r { Ok(v) => v.lock().unwrap().to_string(), Err(e) => format!("<err {}>", e) }
}

/// _sessionid, _name, _ioprocessors, _event and its standard fields cannot be modified by <assign>/<script>: error.execution, value intact
fn readonly_system_variables() {
    let g = create_global_data_arc();
    g.lock().unwrap().session_id = 7;
    {
        // the SCXML I/O processor of an executor, so that _ioprocessors has an entry with a location
        let ex = rufsm::fsm_executor::FsmExecutor::new_without_io_processor();
        let st = ex.state.lock().unwrap();
        let mut l = g.lock().unwrap();
        for p in &st.processors { let pg = p.lock().unwrap(); for t in pg.get_types() { l.io_processors.insert(t.to_string(), p.clone()); } }
    }
    let mut dm = RFsmExpressionDatamodel::new(g.clone());
    dm.initialize_read_only("_sessionid", Data::Integer(7));
    dm.initialize_read_only("_name", Data::String("machine".to_string()));
    dm.set_ioprocessors();
    let mut ev = Event::new_simple("e.v");
    ev.sendid = Some("sid".to_string());
    ev.param_values = Some(vec![ParamPair::new("p", &Data::Integer(5))]);
    dm.set_event(&ev);
    let k = vnd_conc(vnd_range(0, 12, 1), 12);
    let x = 40 + vnd_conc(vnd_range(0, 2, 2), 2) as i64;
    g.lock().unwrap().data.set_undefined("x".to_string(), Data::Integer(x));
    g.lock().unwrap().data.set_undefined("w".to_string(), Data::Integer(0));
    let (loc, probe) = match k {
        0 => ("_sessionid", "_sessionid"), 1 => ("_name", "_name"), 2 => ("_event", "_event.name"), 3 => ("_ioprocessors", "_sessionid"),
        4 => ("_event.name", "_event.name"), 5 => ("_event.sendid", "_event.sendid"), 6 => ("_event.data", "_event.type"),
        8 => ("_name", "_name"), 9 => ("_name", "_name"), 10 => ("_name", "_name"),
        11 => ("_ioprocessors['scxml'].location", "_ioprocessors['scxml'].location"), 12 => ("_event.data.p", "_event.data.p"),
        _ => ("w", "w"),
    };
    let before = value_of(&g, probe);
    let via_script = vnd_bool(3);
    let ok = if k == 8 {
        // the "assign if undefined" operator
        dm.execute(&src(format!("{} ?= x", loc).as_str(), 0)).is_ok()
    } else if k == 9 {
        // <foreach item="_name">
        dm.execute_for_each(&src("[1, 2]", 0), "_name", "", &mut |_d: &mut dyn Datamodel| -> bool { true })
    } else if k == 10 {
        // <foreach item="it" index="_name">
        dm.execute_for_each(&src("[1, 2]", 0), "it", "_name", &mut |_d: &mut dyn Datamodel| -> bool { true })
    } else if via_script {
        dm.execute(&src(format!("{} = x", loc).as_str(), 0)).is_ok()
    } else {
        dm.assign(&src(loc, 0), &src("x", 0))
    };
    let after = value_of(&g, probe);
    let mut nerr = 0;
    { let gd = g.lock().unwrap(); let mut i = 0; while i < gd.vh_internal_queue_len() { if gd.vh_internal_queue_get(i).name == "error.execution" { nerr += 1; } i += 1; } }
    vnd_cover(911);
    if k == 7 {
        // a declared writable location does change
        vnd_check(911, ok && nerr == 0 && after == format!("{}", x));
    } else {
        let field = k >= 4 && k <= 6;
        if k == 12 {
            // known finding 902: members below _event.data are writable
            vnd_check_kf(912, !ok && after == before, KF_EVENT_DATA_MEMBER_WRITABLE, true);
            vnd_check_kf(913, nerr >= 1, KF_EVENT_DATA_MEMBER_WRITABLE, true);
        } else if k == 9 || k == 10 {
            // foreach: the loop variable must not overwrite a system variable, and the attempt is an error
            vnd_check(912, after == before);
            vnd_check(913, nerr >= 1);
        } else {
            vnd_check_kf(912, !ok && after == before, KF_EVENT_FIELD_WRITABLE, field);
            vnd_check_kf(913, nerr >= 1, KF_EVENT_FIELD_WRITABLE, field);
        }
    }
    vnd_obs(1, if ok { 1 } else { 0 });
}

/// while an event is processed _event exposes name, type, sendid, origin, origintype, invokeid and data unchanged
fn event_fields() {
    let g = create_global_data_arc();
    let mut dm = RFsmExpressionDatamodel::new(g.clone());
    let v = vnd_i64(1);
    let mut ev = Event::new_simple("done.x");
    let has = vnd_conc(vnd_range(0, 3, 2), 3);
    if has & 1 != 0 { ev.sendid = Some("s1".to_string()); ev.origin = Some("#_scxml_3".to_string()); }
    if has & 2 != 0 { ev.origin_type = Some("http://www.w3.org/TR/scxml/#SCXMLEventProcessor".to_string()); ev.invoke_id = Some("inv.1".to_string()); }
    let shape = vnd_conc(vnd_range(0, 2, 3), 2);
    if shape == 1 { ev.param_values = Some(vec![ParamPair::new("p", &Data::Integer(v)), ParamPair::new("q", &Data::String("t".to_string()))]); }
    if shape == 2 { ev.content = Some(Data::Integer(v)); }
    ev.etype = if vnd_bool(4) { EventType::internal } else { EventType::external };
    dm.set_event(&ev);
    vnd_cover(921);
    vnd_check(921, value_of(&g, "_event.name") == "done.x" && value_of(&g, "_event.type") == ev.etype.name());
    let opt = |o: &Option<String>| match o { Some(s) => s.clone(), None => "null".to_string() };
    vnd_check(922, value_of(&g, "_event.sendid") == opt(&ev.sendid) && value_of(&g, "_event.origin") == opt(&ev.origin)
        && value_of(&g, "_event.origintype") == opt(&ev.origin_type) && value_of(&g, "_event.invokeid") == opt(&ev.invoke_id));
    let want = match shape { 1 => format!("{}", v), 2 => format!("{}", v), _ => "null".to_string() };
    let got = match shape { 1 => value_of(&g, "_event.data.p"), _ => value_of(&g, "_event.data") };
    vnd_check(923, got == want && (shape != 1 || value_of(&g, "_event.data.q") == "t"));
    vnd_obs(1, has as u64);
}

/// binding: early — every state's data initialised with values before any content runs; late — a state's data get their values at its
/// first entry, before its onentry content, and not again on re-entry
fn binding() {
    let ix = vnd_conc(vnd_range(0, 2, 1), 2);
    let mut sh = shape_by_index(if ix == 0 { 1 } else if ix == 1 { 3 } else { 6 });
    let late = vnd_bool(2);
    // reader-built models never enter the <scxml> element: its data must have their values before any content all the same
    sh.root_internal = vnd_bool(3);
    let mut m = Model { sh, ts: Vec::new(), late };
    // 2 -> (another top-level child) -> back: re-entry of state 2
    let other = if ix == 0 { 5 } else if ix == 1 { 9 } else { 2 };
    m.ts.push(MT { src: 2, tgt: [other, 0], ntgt: 1, internal: false, ev: 1, has_cond: false });
    m.ts.push(MT { src: other, tgt: [2, 0], ntgt: 1, internal: false, ev: 2, has_cond: false });
    let mut fsm = build_fsm(&m);
    // a top-level <script>: it is content and must find the data in place
    fsm.script = 950;
    let g = new_global();
    {
        let mut gd = g.lock().unwrap();
        for name in ["e1", "e2", "e1"] { gd.externalQueue.enqueue(Box::new(Event::new_simple(name))); }
        gd.externalQueue.enqueue(Box::new(Event::new_simple(EVENT_CANCEL_SESSION)));
    }
    let mut dm = VDm::new(g.clone());
    fsm.interpret(&mut dm);
    // analyse the log: DI tokens are TOK_DI + 2*s + set
    let n = m.sh.n as u32;
    let mut ok = true;
    let mut first_content = usize::MAX;
    let mut valued = 0u32;     // states whose data have been given values (set = true)
    let mut i = 0;
    while i < dm.log.len() {
        let t = dm.log[i];
        if t >= TOK_DI && t < TOK_DI + 100 {
            let s = (t - TOK_DI) / 2; let set = (t - TOK_DI) % 2 == 1;
            if set { if valued & (1 << s) != 0 { ok = false; } valued |= 1 << s; }
            if !late && first_content != usize::MAX { ok = false; }        // early: nothing is initialised after content started
        } else if t < TOK_G {
            if first_content == usize::MAX { first_content = i; if valued & 2 == 0 { ok = false; } }   // top-level data are bound before any content
            if t >= X_ENTRY && t < X_ENTRY + 100 { let s = t - X_ENTRY; if valued & (1 << s) == 0 { ok = false; } }   // onentry(s) only after s got its values
        }
        i += 1;
    }
    // early: every (non-history) state was given values up front
    if !late { let mut s = 1; while s <= n { if !m.sh.is_hist(s) && valued & (1 << s) == 0 { ok = false; } s += 1; } }
    vnd_cover(931);
    vnd_check(931, ok && first_content != usize::MAX);
    vnd_obs(1, dm.log.len() as u64);
}

/// In() of one session must not be disturbed by another session that was started with a copy of its action table (what Fsm::invoke
/// and the executor hand to a child): after the child registered its own In(), the parent still sees its own configuration
fn in_shared() {
    let sh = shape_by_index(2);
    let m = Model { sh, ts: Vec::new(), late: false };
    let mut fsm = build_fsm(&m);
    let g = new_global();
    let mask = vnd_range(0, (1 << (m.sh.n + 1)) - 1, 1) & !1;
    let q = vnd_conc(vnd_range(1, m.sh.n as u32, 2), m.sh.n as u32);
    {
        let mut gd = g.lock().unwrap();
        let mut s = 1u32;
        while s <= m.sh.n as u32 { if mask & (1 << s) != 0 { gd.configuration.add(s); } s += 1; }
    }
    let mut dm = RFsmExpressionDatamodel::new(g.clone());
    dm.add_functions(&mut fsm);
    // the child: other state names (ids overlap), its own global data, the parent's action table as start_fsm receives it
    let mut child = Fsm::new();
    let mut c1 = State::new("kid_a"); c1.id = 1; let mut c2 = State::new("kid_b"); c2.id = 2;
    child.states.push(c1); child.states.push(c2);
    let cg = new_global();
    cg.lock().unwrap().actions = g.lock().unwrap().actions.get_copy();
    cg.lock().unwrap().configuration.add(2);
    let mut cdm = RFsmExpressionDatamodel::new(cg.clone());
    cdm.add_functions(&mut child);
    let text = format!("In('s{}')", q);
    let r = dm.execute_condition(&src(text.as_str(), 0));
    vnd_cover(941);
    vnd_check(941, r == Ok(mask & (1 << q) != 0));
    let rc = cdm.execute_condition(&src("In('kid_b')", 0));
    let rc2 = cdm.execute_condition(&src("In('kid_a')", 0));
    vnd_check(942, rc == Ok(true) && rc2 == Ok(false));
    vnd_obs(1, if r == Ok(true) { 1 } else { 0 });
}
