//! Statechart harness support (DESIGN.md §2.5, Appendix A): shape catalogue, model -> real `Fsm` builder,
//! the logging datamodel stub `VDm`, and the independent reference semantics (bit masks over state ids).
#![allow(dead_code)]
use rufsm::datamodel::*;
use rufsm::fsm::*;
use std::collections::HashMap;
use std::sync::{Arc, Mutex};

pub const MAXN: usize = 12;
pub const K_STATE: u32 = 0;
pub const K_PAR: u32 = 1;
pub const K_FINAL: u32 = 2;
pub const K_HS: u32 = 3;
pub const K_HD: u32 = 4;

/// state ids 1..=n; index 0 unused; `doc[s]` is the document position (1-based) of state s
#[derive(Clone, Copy)]
pub struct Shape {
    pub n: usize,
    pub parent: [u32; MAXN + 1],
    pub kind: [u32; MAXN + 1],
    pub doc: [u32; MAXN + 1],
    /// initial-transition targets of compound states (0,0 = first child in document order)
    pub init: [[u32; 2]; MAXN + 1],
    /// default-transition target of history states
    pub hdef: [u32; MAXN + 1],
    /// content id of <initial> transition bodies / history default bodies (0 = none)
    pub init_content: [u32; MAXN + 1],
    // ---- derived tables (filled by `finish`)
    pub ord: [u32; MAXN + 1],
    pub chm: [u32; MAXN + 1],
    pub him: [u32; MAXN + 1],
    pub dem: [u32; MAXN + 1],
    /// the initial transition of the <scxml> element has type internal, as the XML reader and the binary reader build it: its domain is
    /// the root itself, so the root is never entered and never part of a configuration (false: external, the root is entered at start-up)
    pub root_internal: bool,
}

fn shape(n: usize, parent: &[u32], kind: &[u32]) -> Shape {
    let mut s = Shape { n, parent: [0; MAXN + 1], kind: [0; MAXN + 1], doc: [0; MAXN + 1], init: [[0; 2]; MAXN + 1], hdef: [0; MAXN + 1], init_content: [0; MAXN + 1], ord: [0; MAXN + 1], chm: [0; MAXN + 1], him: [0; MAXN + 1], dem: [0; MAXN + 1], root_internal: false };
    let mut i = 1;
    while i <= n { s.parent[i] = parent[i]; s.kind[i] = kind[i]; s.doc[i] = i as u32; i += 1; }
    s
}

pub const NSHAPES: u32 = 15;

pub fn shape_by_index(ix: u32) -> Shape {
    let mut s = shape_raw(ix);
    s.finish();
    s
}

fn shape_raw(ix: u32) -> Shape {
    match ix {
        // 0: flat
        0 => shape(4, &[0, 0, 1, 1, 1], &[0, 0, 0, 0, 0]),
        // 1: one compound state
        1 => { let mut s = shape(5, &[0, 0, 1, 2, 2, 1], &[0, 0, 0, 0, 0, 0]); s.init_content[2] = 602; s }
        // 2: depth 3, non-default initial (2 -> 5 via deep target)
        2 => { let mut s = shape(7, &[0, 0, 1, 2, 3, 3, 2, 1], &[0, 0, 0, 0, 0, 0, 0, 0]); s.init[2] = [5, 0]; s }
        // 3: parallel with two compound regions
        3 => shape(9, &[0, 0, 1, 2, 3, 3, 2, 6, 6, 1], &[0, 0, 1, 0, 0, 0, 0, 0, 0, 0]),
        // 4: shallow history in a compound state
        4 => { let mut s = shape(6, &[0, 0, 1, 2, 2, 2, 1], &[0, 0, 0, 0, 0, 3, 0]); s.hdef[5] = 3; s.init_content[5] = 705; s }
        // 5: deep history
        5 => { let mut s = shape(8, &[0, 0, 1, 2, 3, 3, 2, 2, 1], &[0, 0, 0, 0, 0, 0, 0, 4, 0]); s.hdef[7] = 5; s.init_content[7] = 707; s }
        // 6: finals (nested and top level)
        6 => shape(5, &[0, 0, 1, 2, 2, 1], &[0, 0, 0, 0, 2, 2]),
        // 7: parallel whose regions have finals
        7 => shape(9, &[0, 0, 1, 2, 3, 3, 2, 6, 6, 1], &[0, 0, 1, 0, 0, 2, 0, 0, 2, 0]),
        // 8: parallel + shallow history in a region
        8 => { let mut s = shape(10, &[0, 0, 1, 2, 3, 3, 2, 6, 1, 6, 6], &[0, 0, 1, 0, 0, 0, 0, 0, 0, 0, 3]); s.hdef[10] = 7; s.init_content[10] = 710; s }
        // 9: ids differ from document order (forward references): doc order is 1,3,4,2,5
        9 => { let mut s = shape(5, &[0, 0, 3, 1, 3, 1], &[0, 0, 0, 0, 0, 0]); s.doc = [0, 1, 4, 2, 3, 5, 0, 0, 0, 0, 0, 0, 0]; s }
        // 10: shallow history owned by a parallel state, initial with two targets
        10 => { let mut s = shape(10, &[0, 0, 1, 2, 3, 3, 2, 6, 6, 2, 1], &[0, 0, 1, 0, 0, 0, 0, 0, 0, 3, 0]); s.hdef[9] = 3; s }
        // 12: deep history owned by one region of a parallel state (the sibling region must not leak into the record)
        12 => { let mut s = shape(10, &[0, 0, 1, 2, 3, 3, 3, 2, 7, 7, 1], &[0, 0, 1, 0, 0, 0, 4, 0, 0, 0, 0]); s.hdef[6] = 4; s.init_content[6] = 706; s }
        // 13: parallel whose first region holds a compound child with a nested final (a final two levels below the region does not
        //     make the region final), second region with a direct final
        13 => shape(10, &[0, 0, 1, 2, 3, 4, 4, 2, 7, 7, 1], &[0, 0, 1, 0, 0, 0, 2, 0, 0, 2, 0]),
        // 14: deep history of a compound state whose child is a parallel with two compound regions: a recorded value names one atomic
        //     state per region, and restoring it must not add the default children of the regions
        14 => { let mut s = shape(11, &[0, 0, 1, 2, 3, 4, 4, 3, 7, 7, 2, 1], &[0, 0, 0, 1, 0, 0, 0, 0, 0, 0, 4, 0]); s.hdef[10] = 3; s }
        // 11: parallel nested in a compound region of a parallel, deep history at the outer compound
        _ => { let mut s = shape(11, &[0, 0, 1, 2, 3, 4, 4, 3, 2, 8, 2, 1], &[0, 0, 0, 1, 1, 0, 0, 0, 0, 0, 4, 0]); s.hdef[10] = 3; s }
    }
}

impl Shape {
    #[inline]
    pub fn is_hist(&self, s: u32) -> bool { self.kind[s as usize] == K_HS || self.kind[s as usize] == K_HD }
    /// fills the derived tables (document order, children / history / descendant masks)
    pub fn finish(&mut self) {
        let mut d = 1; let mut k = 0;
        while d <= self.n as u32 { let mut s = 1; while s <= self.n { if self.doc[s] == d { self.ord[k] = s as u32; k += 1; } s += 1; } d += 1; }
        let mut s = 1;
        while s <= self.n {
            let p = self.parent[s] as usize;
            if p != 0 { if self.is_hist(s as u32) { self.him[p] |= 1 << s; } else { self.chm[p] |= 1 << s; } }
            let mut a = p;
            while a != 0 { self.dem[a] |= 1 << s; a = self.parent[a] as usize; }
            s += 1;
        }
    }
    #[inline]
    pub fn children(&self, s: u32) -> u32 { self.chm[s as usize] }
    #[inline]
    pub fn hist_of(&self, s: u32) -> u32 { self.him[s as usize] }
    /// state ids in document order
    pub fn order(&self) -> Vec<u32> { self.ord[..self.n].to_vec() }
    pub fn ordered(&self, mask: u32) -> Vec<u32> {
        let mut v = Vec::new();
        if mask == 0 { return v; }
        let mut k = 0;
        while k < self.n { let s = self.ord[k]; if mask & (1 << s) != 0 { v.push(s); } k += 1; }
        v
    }
    #[inline]
    pub fn is_desc(&self, a: u32, b: u32) -> bool { a != 0 && b != 0 && self.dem[b as usize] & (1 << a) != 0 }
    #[inline]
    pub fn desc_mask(&self, b: u32) -> u32 { self.dem[b as usize] }
    pub fn atomic(&self, s: u32) -> bool { !self.is_hist(s) && self.children(s) == 0 }
    pub fn compound(&self, s: u32) -> bool { self.kind[s as usize] == K_STATE && self.children(s) != 0 }
    pub fn first_child(&self, s: u32) -> u32 { let o = self.ordered(self.children(s)); if o.is_empty() { 0 } else { o[0] } }
    pub fn init_targets(&self, s: u32) -> Vec<u32> {
        let mut v = Vec::new();
        if self.init[s as usize][0] != 0 { v.push(self.init[s as usize][0]); if self.init[s as usize][1] != 0 { v.push(self.init[s as usize][1]); } }
        else { let f = self.first_child(s); if f != 0 { v.push(f); } }
        v
    }
    /// all legal sub-configurations of the subtree rooted at `s` given that `s` is active
    pub fn configs_of(&self, s: u32) -> Vec<u32> {
        if s == 1 && self.root_internal {
            let mut plain = *self; plain.root_internal = false;
            let mut v = plain.configs_of(1);
            for c in v.iter_mut() { *c &= !2; }
            return v;
        }
        let ch = self.ordered(self.children(s));
        let bit = 1u32 << s;
        if ch.is_empty() { return vec![bit]; }
        if self.kind[s as usize] == K_PAR {
            let mut acc = vec![bit];
            for c in ch {
                let sub = self.configs_of(c);
                let mut nacc = Vec::new();
                for a in &acc { for b in &sub { nacc.push(*a | *b); } }
                acc = nacc;
            }
            acc
        } else {
            let mut acc = Vec::new();
            for c in ch { for b in self.configs_of(c) { acc.push(bit | b); } }
            acc
        }
    }
    pub fn legal(&self, c: u32) -> bool {
        if self.root_internal { if c & 2 != 0 { return false; } let mut plain = *self; plain.root_internal = false; return plain.legal(c | 2); }
        if c & 2 == 0 { return false; }
        let mut s = 1u32;
        while s <= self.n as u32 {
            if c & (1 << s) != 0 {
                if self.is_hist(s) { return false; }
                if s != 1 && c & (1 << self.parent[s as usize]) == 0 { return false; }
                let ch = self.children(s);
                if ch != 0 {
                    let act = (ch & c).count_ones();
                    if self.kind[s as usize] == K_PAR { if act != ch.count_ones() { return false; } } else if act != 1 { return false; }
                }
            }
            s += 1;
        }
        c >> (self.n + 1) == 0
    }
    /// legal recorded values of history state h (Appendix A, HInv)
    pub fn history_values(&self, h: u32) -> Vec<u32> {
        let p = self.parent[h as usize];
        let mut out = Vec::new();
        if self.kind[h as usize] == K_HS {
            if self.kind[p as usize] == K_PAR { out.push(self.children(p)); } else { for c in self.ordered(self.children(p)) { out.push(1 << c); } }
        } else {
            for cfg in self.configs_of(p) {
                let mut m = 0; let mut s = 1u32;
                while s <= self.n as u32 { if cfg & (1 << s) != 0 && s != p && self.atomic(s) { m |= 1 << s; } s += 1; }
                out.push(m);
            }
        }
        out
    }
}

/// ordinary transition of the model
#[derive(Clone, Copy)]
pub struct MT {
    pub src: u32,
    pub tgt: [u32; 2],
    pub ntgt: u32,
    pub internal: bool,
    /// 0: event-less, 1: "e1", 2: "e2", 3: "*", 4: "e1.x"
    pub ev: u32,
    pub has_cond: bool,
}

pub const T_INIT: u32 = 100;   // id of the initial transition of state s: 100 + s
pub const T_HDEF: u32 = 120;   // default transition of history h: 120 + h
pub const T_ORD: u32 = 140;    // k-th ordinary transition: 140 + k
pub const X_ENTRY: u32 = 200;
pub const X_EXIT: u32 = 300;
pub const X_TRANS: u32 = 500;  // body of ordinary transition k: 500 + k
pub const TOK_G: u32 = 2000;
pub const TOK_EV: u32 = 3000;
pub const TOK_DI: u32 = 4000;
pub const TOK_INV: u32 = 5000;   // start of invoke k (document order over the whole model): 5000 + k
pub const X_FIN: u32 = 800;      // finalize body of invoke k: 800 + k

pub struct Model {
    pub sh: Shape,
    pub ts: Vec<MT>,
    pub late: bool,
}

pub fn ev_name(ev: u32) -> &'static str { match ev { 1 => "e1", 2 => "e2", 3 => "*", 4 => "e1.x", 5 => "i1", 6 => "i2", _ => "" } }

fn spec_ok(sh: &Shape, t: &[u32]) -> bool {
    // legal state specification for a target list of length <= 2
    if t.len() < 2 { return true; }
    // a history target stands for (a sub-configuration of) its parent state (Appendix A)
    let a = if sh.is_hist(t[0]) { sh.parent[t[0] as usize] } else { t[0] };
    let b = if sh.is_hist(t[1]) { sh.parent[t[1] as usize] } else { t[1] };
    if a == b || sh.is_desc(a, b) || sh.is_desc(b, a) { return false; }
    // nearest common ancestor must be a parallel state
    let mut p = sh.parent[a as usize];
    while p != 0 { if sh.is_desc(b, p) { return sh.kind[p as usize] == K_PAR; } p = sh.parent[p as usize]; }
    false
}

/// Appendix A, Conformant(M) clause 5 for one ordinary transition
pub fn conformant_t(sh: &Shape, t: &MT) -> bool {
    let k = sh.kind[t.src as usize];
    if t.src < 2 || t.src as usize > sh.n || !(k == K_STATE || k == K_PAR) { return false; }
    if t.ntgt > 2 { return false; }
    let mut i = 0;
    while i < t.ntgt as usize { let x = t.tgt[i]; if x < 2 || x as usize > sh.n { return false; } i += 1; }
    spec_ok(sh, &t.tgt[..t.ntgt as usize])
}

pub fn build_fsm(m: &Model) -> Fsm {
    let sh = &m.sh;
    let mut fsm = Fsm::new();
    fsm.pseudo_root = 1;
    fsm.binding = if m.late { BindingType::Late } else { BindingType::Early };
    let mut s = 1u32;
    while s <= sh.n as u32 {
        let mut st = State::new("");
        st.name = format!("s{}", s);
        st.id = s;
        st.doc_id = sh.doc[s as usize];
        st.parent = sh.parent[s as usize];
        st.states = sh.ordered(sh.children(s));
        st.is_parallel = sh.kind[s as usize] == K_PAR;
        st.is_final = sh.kind[s as usize] == K_FINAL;
        st.history_type = if sh.kind[s as usize] == K_HS { HistoryType::Shallow } else if sh.kind[s as usize] == K_HD { HistoryType::Deep } else { HistoryType::None };
        for h in sh.ordered(sh.hist_of(s)) { st.history.push(h); }
        if !sh.is_hist(s) { st.onentry.push(X_ENTRY + s); st.onexit.push(X_EXIT + s); }
        if sh.compound(s) || (s == 1 && sh.children(1) != 0) {
            let mut t = Transition::new();
            t.id = T_INIT + s; t.doc_id = 0; t.source = s; t.target = sh.init_targets(s); t.content = sh.init_content[s as usize];
            if s == 1 && sh.root_internal { t.transition_type = TransitionType::Internal; }
            st.initial = t.id;
            fsm.transitions.insert(t.id, t);
        }
        if sh.is_hist(s) {
            let mut t = Transition::new();
            t.id = T_HDEF + s; t.doc_id = 0; t.source = s; t.target = vec![sh.hdef[s as usize]]; t.content = sh.init_content[s as usize];
            st.transitions.push(t.id);
            fsm.transitions.insert(t.id, t);
        }
        fsm.states.push(st);
        s += 1;
    }
    let mut k = 0u32;
    while (k as usize) < m.ts.len() {
        let mt = &m.ts[k as usize];
        let mut t = Transition::new();
        t.id = T_ORD + k; t.doc_id = 10 + k; t.source = mt.src;
        let mut i = 0; while i < mt.ntgt as usize { t.target.push(mt.tgt[i]); i += 1; }
        t.transition_type = if mt.internal { TransitionType::Internal } else { TransitionType::External };
        if mt.ev == 3 { t.wildcard = true; t.events.push("*".to_string()); } else if mt.ev != 0 { t.events.push(ev_name(mt.ev).to_string()); }
        if mt.has_cond { t.cond = Data::Source(SourceCode::new("g", (T_ORD + k) as usize)); }
        t.content = X_TRANS + k;
        fsm.states[(mt.src - 1) as usize].transitions.push(t.id);
        fsm.transitions.insert(t.id, t);
        k += 1;
    }
    fsm
}

// ------------------------------------------------------------------------------------------------ datamodel stub
/// guard outcome: 0 false, 1 true, 2 evaluation error
pub struct VDm {
    pub g: GlobalDataArc,
    pub log: Vec<u32>,
    pub guards: Vec<u32>,
    /// (content id, what): 1 raise "i1", 2 raise "i2", 3 fail (return false)
    pub effects: Vec<(u32, u32)>,
    /// number of content bodies executed; raising stops after `raise_cap` bodies (bounds live-locking documents)
    pub bodies: u32,
    pub raise_cap: u32,
    /// platform sends: (target, event name, has invoke id)
    pub sends: Vec<(String, String, bool)>,
}

impl VDm {
    pub fn new(g: GlobalDataArc) -> VDm { VDm { g, log: Vec::new(), guards: Vec::new(), effects: Vec::new(), bodies: 0, raise_cap: 1000, sends: Vec::new() } }
}

impl Datamodel for VDm {
    fn global(&mut self) -> &mut GlobalDataArc { &mut self.g }
    fn global_s(&self) -> &GlobalDataArc { &self.g }
    fn get_name(&self) -> &str { "v" }
    fn add_functions(&mut self, _fsm: &mut Fsm) {}
    fn set_ioprocessors(&mut self) {}
    fn initializeDataModel(&mut self, _fsm: &mut Fsm, s: StateId, set: bool) { self.log.push(TOK_DI + s * 2 + if set { 1 } else { 0 }); }
    fn set_from_state_data(&mut self, _d: &HashMap<String, DataArc>, _s: bool) {}
    fn initialize_read_only_arc(&mut self, _n: &str, _v: DataArc) {}
    fn set_arc(&mut self, _n: &str, _d: DataArc, _a: bool) {}
    fn set_event(&mut self, e: &Event) {
        let code = if e.name == "e1" { 1 } else if e.name == "e2" { 2 } else if e.name == "i1" { 5 } else if e.name == "i2" { 6 } else if e.name == "e1.x" { 4 } else if e.name.starts_with("done.state.") { 7 } else if e.name.starts_with("error.") { 8 } else { 9 };
        self.log.push(TOK_EV + code);
    }
    fn assign(&mut self, _l: &Data, _r: &Data) -> bool { true }
    fn get_by_location(&mut self, _l: &str) -> Result<DataArc, String> {
        // like the real datamodels: an invalid location places error.execution on the internal queue
        self.g.lock().unwrap().enqueue_internal(Event::error_execution(&None, &None));
        Err(String::new())
    }
    fn clear(&mut self) {}
    fn log(&mut self, _m: &str) {}
    fn execute(&mut self, s: &Data) -> Result<DataArc, String> {
        // C14: the `typeexpr` of invoke k carries source id TOK_INV + k: evaluating it marks the start of that invoke in the log
        if let Data::Source(c) = s { let id = c.source_id as u32; if id >= TOK_INV && id < TOK_INV + 100 { self.log.push(id); return Ok(create_data_arc(Data::String("scxml".to_string()))); } }
        Err(String::new())
    }
    fn execute_for_each(&mut self, _a: &Data, _i: &str, _x: &str, _b: &mut dyn FnMut(&mut dyn Datamodel) -> bool) -> bool { true }
    fn execute_condition(&mut self, s: &Data) -> Result<bool, String> {
        let tid = match s { Data::Source(c) => c.source_id as u32, _ => 0 };
        self.log.push(TOK_G + tid);
        let k = (tid - T_ORD) as usize;
        let v = if k < self.guards.len() { self.guards[k] } else { 1 };
        if v == 2 { Err("guard error".to_string()) } else { Ok(v == 1) }
    }
    fn executeContent(&mut self, _fsm: &Fsm, id: ExecutableContentId) -> bool {
        self.log.push(id);
        self.bodies += 1;
        let mut i = 0;
        while i < self.effects.len() {
            if self.effects[i].0 == id {
                let w = self.effects[i].1;
                if w == 1 && self.bodies <= self.raise_cap { self.g.lock().unwrap().enqueue_internal(Event::new_simple("i1")); }
                if w == 2 && self.bodies <= self.raise_cap { self.g.lock().unwrap().enqueue_internal(Event::new_simple("i2")); }
                if w == 3 { return false; }
            }
            i += 1;
        }
        true
    }
    fn send(&mut self, _ioc: &str, target: &Data, event: Event) -> bool {
        self.sends.push((target.to_string(), event.name.clone(), event.invoke_id.is_some()));
        true
    }
}

pub fn new_global() -> GlobalDataArc { Arc::new(Mutex::new(GlobalData::new())) }

// ------------------------------------------------------------------------------------------------ reference semantics
/// history store of the reference: `set` has bit h when a value is recorded for history state h
#[derive(Clone)]
pub struct HV { pub set: u32, pub val: [u32; MAXN + 1] }
impl HV { pub fn new() -> HV { HV { set: 0, val: [0; MAXN + 1] } } }

pub struct RefOut {
    pub log: Vec<u32>,
    pub config: Vec<u32>,
    pub queue: Vec<u32>,       // internal queue as codes: 100+s = done.state.s ; 1 = i1 ; 2 = i2 ; 9 = error.execution
    pub hv: HV,
    pub running: bool,
    pub selected: Vec<u32>,    // indices k of the selected ordinary transitions, in selection order
}

fn name_matches(ev: u32, name: u32) -> bool {
    // descriptor ev against event name code (1 e1, 2 e2, 4 e1.x, 5 i1, 6 i2, 7 done.state.*, 8 error.*)
    if ev == 3 { return true; }
    if ev == 0 { return false; }
    ev == name || (ev == 1 && name == 4)
}

pub struct Ref<'a> { pub m: &'a Model }

impl<'a> Ref<'a> {
    fn sh(&self) -> &Shape { &self.m.sh }

    pub fn eff_targets_of(&self, tgts: &[u32], hv: &HV) -> u32 {
        let sh = self.sh();
        let mut out = 0u32;
        for &x in tgts {
            if sh.is_hist(x) {
                if hv.set & (1 << x) != 0 { out |= hv.val[x as usize]; } else { out |= self.eff_targets_of(&[sh.hdef[x as usize]], hv); }
            } else { out |= 1 << x; }
        }
        out
    }

    pub fn domain(&self, t: &MT, hv: &HV) -> u32 {
        let sh = self.sh();
        let eff = self.eff_targets_of(&t.tgt[..t.ntgt as usize], hv);
        if eff == 0 { return 0; }
        if t.internal && sh.compound(t.src) && eff & !sh.desc_mask(t.src) == 0 { return t.src; }
        let mut p = sh.parent[t.src as usize];
        while p != 0 {
            if (p == 1 || sh.compound(p)) && eff & !sh.desc_mask(p) == 0 { return p; }
            p = sh.parent[p as usize];
        }
        0
    }

    pub fn exit_set(&self, sel: &[u32], c: u32, hv: &HV) -> u32 {
        let mut out = 0;
        for &k in sel {
            let t = &self.m.ts[k as usize];
            if t.ntgt > 0 { let d = self.domain(t, hv); if d != 0 { out |= c & self.sh().desc_mask(d); } }
        }
        out
    }

    /// optimal enabled transition set; logs guard evaluations
    pub fn select(&self, c: u32, eventless: bool, name: u32, guards: &[u32], hv: &HV, log: &mut Vec<u32>, errors: &mut u32) -> Vec<u32> {
        let sh = self.sh();
        let mut enabled: Vec<u32> = Vec::new();
        for a in sh.ordered(c) {
            if !sh.atomic(a) { continue; }
            let mut s = a;
            let mut found = false;
            while s != 0 && !found {
                let mut k = 0u32;
                while (k as usize) < self.m.ts.len() && !found {
                    let t = &self.m.ts[k as usize];
                    if t.src == s && ((eventless && t.ev == 0) || (!eventless && name_matches(t.ev, name))) {
                        let mut ok = true;
                        if t.has_cond {
                            log.push(TOK_G + T_ORD + k);
                            let g = guards[k as usize];
                            if g == 2 { *errors += 1; ok = false; } else { ok = g == 1; }
                        }
                        if ok { if !enabled.contains(&k) { enabled.push(k); } found = true; }
                    }
                    k += 1;
                }
                s = sh.parent[s as usize];
            }
        }
        // removeConflictingTransitions
        let mut filtered: Vec<u32> = Vec::new();
        for &t1 in &enabled {
            let mut preempted = false;
            let mut remove: Vec<u32> = Vec::new();
            for &t2 in &filtered {
                if self.exit_set(&[t1], c, hv) & self.exit_set(&[t2], c, hv) != 0 {
                    if sh.is_desc(self.m.ts[t1 as usize].src, self.m.ts[t2 as usize].src) { remove.push(t2); } else { preempted = true; break; }
                }
            }
            if !preempted {
                filtered.retain(|x| !remove.contains(x));
                filtered.push(t1);
            }
        }
        filtered
    }

    fn add_desc(&self, s: u32, enter: &mut u32, defent: &mut u32, dhc: &mut [u32; MAXN + 1], hv: &HV) {
        let sh = self.sh();
        if sh.is_hist(s) {
            let p = sh.parent[s as usize];
            if hv.set & (1 << s) != 0 {
                let v = hv.val[s as usize];
                for x in sh.ordered(v) { self.add_desc(x, enter, defent, dhc, hv); }
                for x in sh.ordered(v) { self.add_anc(x, p, enter, defent, dhc, hv); }
            } else {
                dhc[p as usize] = sh.init_content[s as usize] | 0x8000_0000;
                let d = sh.hdef[s as usize];
                self.add_desc(d, enter, defent, dhc, hv);
                self.add_anc(d, p, enter, defent, dhc, hv);
            }
        } else {
            *enter |= 1 << s;
            if sh.compound(s) {
                *defent |= 1 << s;
                for x in sh.init_targets(s) { self.add_desc(x, enter, defent, dhc, hv); }
                for x in sh.init_targets(s) { self.add_anc(x, s, enter, defent, dhc, hv); }
            } else if sh.kind[s as usize] == K_PAR {
                for c in sh.ordered(sh.children(s)) {
                    if *enter & sh.desc_mask(c) == 0 && *enter & (1 << c) == 0 { self.add_desc(c, enter, defent, dhc, hv); }
                }
            }
        }
    }

    fn add_anc(&self, s: u32, anc: u32, enter: &mut u32, defent: &mut u32, dhc: &mut [u32; MAXN + 1], hv: &HV) {
        let sh = self.sh();
        let mut p = sh.parent[s as usize];
        while p != 0 && p != anc {
            *enter |= 1 << p;
            if sh.kind[p as usize] == K_PAR {
                for c in sh.ordered(sh.children(p)) {
                    if *enter & sh.desc_mask(c) == 0 && *enter & (1 << c) == 0 { self.add_desc(c, enter, defent, dhc, hv); }
                }
            }
            p = sh.parent[p as usize];
        }
    }

    fn in_final(&self, s: u32, c: u32) -> bool {
        let sh = self.sh();
        if sh.compound(s) {
            for x in sh.ordered(sh.children(s)) { if sh.kind[x as usize] == K_FINAL && c & (1 << x) != 0 { return true; } }
            false
        } else if sh.kind[s as usize] == K_PAR {
            for x in sh.ordered(sh.children(s)) { if !self.in_final(x, c) { return false; } }
            true
        } else { false }
    }

    /// enterStates for a list of (target list, domain) pairs
    fn enter(&self, targets: &[(Vec<u32>, u32)], conf: &mut Vec<u32>, hv: &HV, out: &mut RefOut, first_entry: &mut u32) {
        let sh = self.sh();
        let (mut enter, mut defent) = (0u32, 0u32);
        let mut dhc = [0u32; MAXN + 1];
        for (tg, dom) in targets {
            for &x in tg { self.add_desc(x, &mut enter, &mut defent, &mut dhc, hv); }
            for x in sh.ordered(self.eff_targets_of(tg, hv)) { self.add_anc(x, *dom, &mut enter, &mut defent, &mut dhc, hv); }
        }
        for s in sh.ordered(enter) {
            if !conf.contains(&s) { conf.push(s); }
            if self.m.late && *first_entry & (1 << s) != 0 { out.log.push(TOK_DI + s * 2 + 1); *first_entry &= !(1 << s); }
            out.log.push(X_ENTRY + s);
            if defent & (1 << s) != 0 && sh.init_content[s as usize] != 0 { out.log.push(sh.init_content[s as usize]); }
            if dhc[s as usize] != 0 { let c = dhc[s as usize] & 0x7fff_ffff; if c != 0 { out.log.push(c); } }
            if sh.kind[s as usize] == K_FINAL {
                let p = sh.parent[s as usize];
                if p == 1 { out.running = false; } else {
                    out.queue.push(100 + p);
                    out.log.push(MARK_DONE + p);
                    let gp = sh.parent[p as usize];
                    if gp != 0 && sh.kind[gp as usize] == K_PAR {
                        let mut cm = 0u32; for x in conf.iter() { cm |= 1 << *x; }
                        let mut all = true;
                        for x in sh.ordered(sh.children(gp)) { if !self.in_final(x, cm) { all = false; } }
                        if all { out.queue.push(100 + gp); out.log.push(MARK_DONE + gp); }
                    }
                }
            }
        }
    }

    /// start-up: enterStates([initial transition of the root])
    pub fn startup(&self, hv: &HV, first_entry: &mut u32) -> RefOut {
        let mut out = RefOut { log: Vec::new(), config: Vec::new(), queue: Vec::new(), hv: hv.clone(), running: true, selected: Vec::new() };
        let mut conf = Vec::new();
        let tg = self.sh().init_targets(1);
        // the <scxml> element is modelled as state 1; with an external initial transition it is itself entered at start-up (domain
        // "null"), with an internal one (what the readers build) the domain is the root and only its descendants are entered
        let dom = if self.sh().root_internal { 1 } else { 0 };
        self.enter(&[(tg, dom)], &mut conf, hv, &mut out, first_entry);
        out.config = conf;
        out
    }

    /// one microstep from configuration `conf0` (ordered) taking the ordinary transitions `sel`
    pub fn microstep(&self, conf0: &[u32], sel: &[u32], hv0: &HV, first_entry: &mut u32) -> RefOut {
        let sh = self.sh();
        let mut out = RefOut { log: Vec::new(), config: Vec::new(), queue: Vec::new(), hv: hv0.clone(), running: true, selected: sel.to_vec() };
        let mut c = 0u32; for x in conf0 { c |= 1 << *x; }
        let ex = self.exit_set(sel, c, hv0);
        // history is recorded from the configuration before anything is exited
        for s in sh.ordered(ex) {
            for h in sh.ordered(sh.hist_of(s)) {
                let v = if sh.kind[h as usize] == K_HD {
                    let mut m = 0; let mut x = 1u32; while x <= sh.n as u32 { if c & (1 << x) != 0 && sh.atomic(x) && sh.is_desc(x, s) { m |= 1 << x; } x += 1; } m
                } else { c & sh.children(s) };
                out.hv.set |= 1 << h; out.hv.val[h as usize] = v;
            }
        }
        let mut exl = sh.ordered(ex); exl.reverse();
        let mut conf: Vec<u32> = conf0.to_vec();
        for s in exl { out.log.push(X_EXIT + s); conf.retain(|x| *x != s); }
        for &k in sel { out.log.push(X_TRANS + k); }
        let mut tl = Vec::new();
        for &k in sel { let t = &self.m.ts[k as usize]; tl.push((t.tgt[..t.ntgt as usize].to_vec(), self.domain(t, &out.hv))); }
        let hv_now = out.hv.clone();
        self.enter(&tl, &mut conf, &hv_now, &mut out, first_entry);
        out.config = conf;
        out
    }
}

/// marker tokens inside reference logs: position at which done.state.<s> is put on the internal queue
pub const MARK_DONE: u32 = 9000;

/// reference log without marker tokens (what VDm can observe)
pub fn plain(log: &[u32]) -> Vec<u32> { let mut v = Vec::new(); for t in log { if *t < MARK_DONE { v.push(*t); } } v }

pub struct RunOut {
    pub log: Vec<u32>,
    pub config: Vec<u32>,
    pub hv: HV,
    pub final_conf: Vec<u32>,
    pub done_invoke: bool,
    pub ext_left: usize,
    pub blocked: bool,
    pub steps: u32,
}

pub const EXT_CANCEL: u32 = 99;

fn queue_ev_code(q: u32) -> (u32, u32) {
    // internal queue code -> (event name code for matching, EV log code)
    if q == 1 { (5, 5) } else if q == 2 { (6, 6) } else if q == 9 { (8, 8) } else { (7, 7) }
}

impl<'a> Ref<'a> {
    /// mainEventLoop + exitInterpreter of the W3C algorithm (no invokes): macrosteps until the external queue holds nothing more.
    pub fn run(&self, conf0: &[u32], hv0: &HV, queue0: &[u32], externals: &[u32], guards: &[u32], effects: &[(u32, u32)], raise_cap: u32,
               first_entry: &mut u32, has_parent: bool, max_steps: u32) -> RunOut {
        let sh = self.sh();
        let mut out = RunOut { log: Vec::new(), config: conf0.to_vec(), hv: hv0.clone(), final_conf: Vec::new(), done_invoke: false, ext_left: 0, blocked: false, steps: 0 };
        let mut queue: Vec<u32> = queue0.to_vec();
        let mut running = true;
        let mut bodies = 0u32;
        let mut xi = 0usize;
        while running {
            // ---- macrostep
            loop {
                if !running { break; }
                let c = mask_of(&out.config);
                let mut errors = 0u32;
                let mut sel = self.select(c, true, 0, guards, &out.hv, &mut out.log, &mut errors);
                let mut e = 0; while e < errors { queue.push(9); e += 1; }
                if sel.is_empty() {
                    if queue.is_empty() { break; }
                    let q = queue.remove(0);
                    let (name, code) = queue_ev_code(q);
                    out.log.push(TOK_EV + code);
                    let mut errors = 0u32;
                    sel = self.select(c, false, name, guards, &out.hv, &mut out.log, &mut errors);
                    let mut e = 0; while e < errors { queue.push(9); e += 1; }
                }
                if !sel.is_empty() {
                    out.steps += 1;
                    if out.steps > max_steps { out.blocked = true; return out; }
                    let r = self.microstep(&out.config, &sel, &out.hv, first_entry);
                    self.absorb(&r, &mut out, &mut queue, effects, raise_cap, &mut bodies);
                    if !r.running { running = false; }
                }
            }
            if !running { break; }
            if xi >= externals.len() { out.blocked = true; break; }
            let x = externals[xi]; xi += 1;
            if x == EXT_CANCEL { running = false; continue; }
            out.log.push(TOK_EV + x);
            let c = mask_of(&out.config);
            let mut errors = 0u32;
            let sel = self.select(c, false, x, guards, &out.hv, &mut out.log, &mut errors);
            let mut e = 0; while e < errors { queue.push(9); e += 1; }
            if !sel.is_empty() {
                out.steps += 1;
                if out.steps > max_steps { out.blocked = true; return out; }
                let r = self.microstep(&out.config, &sel, &out.hv, first_entry);
                self.absorb(&r, &mut out, &mut queue, effects, raise_cap, &mut bodies);
                if !r.running { running = false; }
            }
        }
        out.ext_left = externals.len() - xi;
        if out.blocked { return out; }
        // ---- exitInterpreter
        out.final_conf = out.config.clone();
        let mut ex = sh.ordered(mask_of(&out.config)); ex.reverse();
        for s in ex {
            out.log.push(X_EXIT + s);
            out.config.retain(|x| *x != s);
            if sh.kind[s as usize] == K_FINAL && sh.parent[s as usize] == 1 && has_parent { out.done_invoke = true; }
        }
        out
    }

    pub fn absorb(&self, r: &RefOut, out: &mut RunOut, queue: &mut Vec<u32>, effects: &[(u32, u32)], raise_cap: u32, bodies: &mut u32) {
        for &tok in &r.log {
            if tok >= MARK_DONE { queue.push(100 + (tok - MARK_DONE)); continue; }
            out.log.push(tok);
            if tok < TOK_G {
                *bodies += 1;
                for (id, w) in effects { if *id == tok && (*w == 1 || *w == 2) && *bodies <= raise_cap { queue.push(*w); } }
            }
        }
        out.config = r.config.clone();
        out.hv = r.hv.clone();
    }
}

// ------------------------------------------------------------------------------------------------ helpers shared by harnesses
pub fn put_config(g: &GlobalDataArc, conf: &[u32]) {
    let mut gd = g.lock().unwrap();
    for s in conf { gd.configuration.add(*s); }
}

pub fn put_history(g: &GlobalDataArc, sh: &Shape, hv: &HV) {
    let mut gd = g.lock().unwrap();
    let mut h = 1u32;
    while h <= sh.n as u32 {
        if hv.set & (1 << h) != 0 {
            let mut os = OrderedSet::new();
            for s in sh.ordered(hv.val[h as usize]) { os.add(s); }
            gd.historyValue.put(h, &os);
        }
        h += 1;
    }
}

pub fn get_config(g: &GlobalDataArc) -> Vec<u32> {
    let gd = g.lock().unwrap();
    let mut v = Vec::new();
    for s in gd.configuration.iterator() { v.push(*s); }
    v
}

pub fn get_history(g: &GlobalDataArc, sh: &Shape) -> HV {
    let gd = g.lock().unwrap();
    let mut hv = HV::new();
    let mut h = 1u32;
    while h <= sh.n as u32 {
        if sh.is_hist(h) && gd.historyValue.has(h) {
            hv.set |= 1 << h;
            let mut m = 0; for s in gd.historyValue.get(h).iterator() { m |= 1 << *s; }
            hv.val[h as usize] = m;
        }
        h += 1;
    }
    hv
}

/// internal queue as codes (see RefOut.queue)
pub fn get_queue(g: &GlobalDataArc) -> Vec<u32> {
    let gd = g.lock().unwrap();
    let mut v = Vec::new();
    let mut i = 0;
    while i < gd.vh_internal_queue_len() {
        let e = gd.vh_internal_queue_get(i);
        let code = if e.name == "i1" { 1 } else if e.name == "i2" { 2 } else if e.name.starts_with("error.execution") { 9 } else if e.name.starts_with("done.state.s") { 100 + e.name[12..].parse::<u32>().unwrap_or(0) } else { 99 };
        v.push(code);
        i += 1;
    }
    v
}

pub fn mask_of(v: &[u32]) -> u32 { let mut m = 0; for x in v { m |= 1 << *x; } m }

pub fn hv_same(a: &HV, b: &HV, n: usize) -> bool {
    if a.set != b.set { return false; }
    let mut h = 1; while h <= n { if a.set & (1 << h) != 0 && a.val[h] != b.val[h] { return false; } h += 1; }
    true
}
