//! C14 (sequential part): the invoke life cycle as seen by one session thread.
//!
//! `h_c14_life_*`: the real `mainEventLoop` runs on a statechart whose `<state>`/`<parallel>` elements carry `<invoke>` elements
//! (state 2 carries two), with symbolic transitions, a pre-loaded external queue (host events, events from children, events from
//! sessions that are no longer invoked, done.invoke) and child sessions registered for the states that are active when the loop
//! starts.  The trace (events made current, finalize bodies, guard evaluations, content bodies, invoke starts) is compared with a
//! reference written from the W3C algorithm; cancellation, the session table and auto-forwarding are compared as well.
//! `h_c14_child`: a real child session is started from inline XML through the executor, runs to its top-level final state and
//! reports to a parent queue: parameter passing only for declared data, child events before done.invoke, done.invoke once.
#![cfg(feature = "xml")]
use crate::h_loop::loop_transition;
use crate::sc::*;
use crate::vnd::*;
use rufsm::actions::ActionWrapper;
use rufsm::datamodel::*;
use rufsm::fsm::*;
use rufsm::fsm_executor::FsmExecutor;

macro_rules! harnesses {
    ($($name:ident => $body:expr),* $(,)?) => {
        pub fn run(name: &str) -> bool {
            match name { $( stringify!($name) => $name(), )* _ => return false, }
            true
        }
        $( pub fn $name() { $body } )*
    };
}

harnesses! {
    h_c14_life_s1 => life(1), h_c14_life_s3 => life(3), h_c14_life_s0 => life(0), h_c14_life_s2 => life(2), h_c14_life_s7 => life(7),
    h_c14_child => child(),
    h_c12_invoke_bad => invoke_bad(),
}

const CHILD_DOC: &str = "<scxml version=\"1.0\" datamodel=\"null\" initial=\"c\"><state id=\"c\"/></scxml>";

/// `fails`: the invoke has a namelist entry that is no valid location: it is evaluated, raises error.execution and starts nothing
pub struct Inv { pub state: u32, pub id: String, pub auto: bool, pub fails: bool }

/// one invoke per <state>/<parallel> (not the root), a second one on state 2; index = document order over the whole model
pub fn invokes_of(sh: &Shape) -> Vec<Inv> {
    let mut v = Vec::new();
    for s in sh.order() {
        if s == 1 || sh.is_hist(s) || sh.kind[s as usize] == K_FINAL { continue; }
        v.push(Inv { state: s, id: format!("inv{}", s), auto: s % 2 == 0, fails: false });
        if s == 2 {
            v.push(Inv { state: s, id: "inv2b".to_string(), auto: false, fails: false });
            v.push(Inv { state: s, id: "inv2c".to_string(), auto: false, fails: true });
        }
    }
    v
}

fn attach_invokes(fsm: &mut Fsm, invs: &[Inv]) {
    let mut k = 0u32;
    for i in invs {
        let mut inv = Invoke::new();
        inv.doc_id = 50 + k;
        // the invoke of state 3 has no 'id' attribute: the platform generates "<state>.<n>" when it starts; the hand-registered
        // instance of the start configuration runs under the key "inv3" all the same (any generated id would do)
        inv.invoke_id = if i.state == 3 { String::new() } else { i.id.clone() };
        inv.parent_state_name = format!("s{}", i.state);
        inv.type_expr = Data::Source(SourceCode::new("t", (TOK_INV + k) as usize));
        inv.content = Some(CommonContent { content: Some(CHILD_DOC.to_string()), content_expr: None });
        inv.autoforward = i.auto;
        if i.fails { inv.name_list.push("nope".to_string()); }
        inv.finalize = X_FIN + k;
        fsm.states[(i.state - 1) as usize].invoke.push(inv);
        k += 1;
    }
}

/// external events of the scenario: 0 = "e1" from the host, 1 = "c.ev" from child `from`, 2 = "done.invoke.<id>" from child `from`,
/// 3 = "c.ev" from a session that is not (or no longer) invoked
struct Ext { kind: u32, from: usize }

fn life(shape_ix: u32) {
    let sh = shape_by_index(shape_ix);
    let invs = invokes_of(&sh);
    let ninv = invs.len();
    // transitions: the first one symbolic (event-less guarded / e1 / i1), the second one triggered by the internal event i1;
    // the first body may raise i1, so a state can be entered and left again inside one macrostep
    let mut ts = Vec::new();
    let mut guards = Vec::new();
    let mut effects: Vec<(u32, u32)> = Vec::new();
    {
        let n = sh.n as u32;
        // t0: on the host event e1, from any state to any state; its body may raise i1
        let src = vnd_conc(vnd_range(2, n, 101), n);
        let tgt = vnd_conc(vnd_range(2, n, 103), n);
        let raise = vnd_bool(108);
        let t0 = MT { src, tgt: [tgt, 0], ntgt: 1, internal: false, ev: 1, has_cond: false };
        vnd_assume(conformant_t(&sh, &t0));
        // t1: leaves the target of t0 again, either event-less (same macrostep, always) or on i1 (same macrostep iff t0 raised it)
        let tgt1 = vnd_conc(vnd_range(2, n, 203), n);
        let evl = vnd_bool(206);
        let t1 = MT { src: tgt, tgt: [tgt1, 0], ntgt: 1, internal: false, ev: if evl { 0 } else { 5 }, has_cond: false };
        vnd_assume(conformant_t(&sh, &t1));
        vnd_assume(tgt1 != tgt && !sh.is_desc(tgt1, tgt) && !sh.is_desc(tgt, tgt1));
        if raise { effects.push((X_TRANS, 1)); }
        ts.push(t0); guards.push(1);
        ts.push(t1); guards.push(1);
    }
    let m = Model { sh, ts, late: false };
    let sh = &m.sh;
    let confs = sh.configs_of(1);
    let ci = vnd_range(0, confs.len() as u32 - 1, 50) as usize;
    let conf = sh.ordered(confs[ci]);
    // two external events, then the platform cancel event
    let mut exts: Vec<Ext> = Vec::new();
    // one of them is the host event e1 (it drives t0), the other one comes from a child (or claims to): before e1 it meets the
    // children of the start configuration, after e1 it meets whatever t0/t1 left running
    {
        let host_first = vnd_bool(70);
        let kind = vnd_conc(vnd_range(1, 3, 71), 3);
        // the sender: the invoke of t0's source, of t0's target, or the second invoke of state 2
        let who = vnd_conc(vnd_range(0, 2, 72), 2);
        let want_state = if who == 0 { m.ts[0].src } else if who == 1 { m.ts[0].tgt[0] } else { 2 };
        let mut from = ninv;
        let mut k = 0;
        while k < ninv { if invs[k].state == want_state && (who != 2 || invs[k].id == "inv2b") && from == ninv { from = k; } k += 1; }
        vnd_assume(kind == 3 || from < ninv);
        if from == ninv { from = 0; }
        if host_first { exts.push(Ext { kind: 0, from: 0 }); }
        exts.push(Ext { kind, from });
        if !host_first { exts.push(Ext { kind: 0, from: 0 }); }
    }

    let mut fsm = build_fsm(&m);
    attach_invokes(&mut fsm, &invs);
    let ex = FsmExecutor::new_without_io_processor();
    let g = new_global();
    put_config(&g, &conf);
    // child sessions of the states that are already active: registered by hand, the harness keeps their queues
    let mut child_q: Vec<Option<GlobalDataArc>> = Vec::new();
    let mut active: Vec<bool> = Vec::new();
    {
        let mut gd = g.lock().unwrap();
        gd.running = true;
        gd.session_id = 1;
        gd.caller_invoke_id = Some("me".to_string());
        gd.executor = Some(Box::new(ex.clone()));
        let mut k = 0;
        while k < ninv {
            if conf.contains(&invs[k].state) && !invs[k].fails {
                let cg = create_global_data_arc();
                let sender = cg.lock().unwrap().externalQueue.sender.clone();
                let mut s = ScxmlSession::new_without_join_handle(100 + k as u32, sender);
                s.state_id = Some(invs[k].state);
                s.invoke_doc_id = 50 + k as u32;
                gd.child_sessions.insert(invs[k].id.clone(), s);
                child_q.push(Some(cg));
                active.push(true);
            } else { child_q.push(None); active.push(false); }
            k += 1;
        }
        for x in &exts {
            let mut e = match x.kind { 0 => Event::new_simple("e1"), 2 => Event::new_simple(format!("done.invoke.{}", invs[x.from].id).as_str()), _ => Event::new_simple("c.ev") };
            if x.kind == 1 || x.kind == 2 { e.invoke_id = Some(invs[x.from].id.clone()); }
            if x.kind == 3 { e.invoke_id = Some("gone".to_string()); }
            gd.externalQueue.enqueue(Box::new(e));
        }
        gd.externalQueue.enqueue(Box::new(Event::new_simple(EVENT_CANCEL_SESSION)));
    }
    let mut s = 1u32;
    while s <= sh.n as u32 { fsm.states[(s - 1) as usize].isFirstEntry = false; s += 1; }
    let mut dm = VDm::new(g.clone());
    dm.guards = guards.clone();
    dm.effects = effects.clone();
    dm.raise_cap = 1000;     // no cap: finalize bodies count as bodies in VDm but not in the reference; runs are bounded by the microstep limit instead

    // ---- the real code
    fsm.vh_mainEventLoop(&mut dm);

    // ---- the reference (W3C mainEventLoop with invoke handling)
    let r = Ref { m: &m };
    let hv0 = HV::new();
    let mut out = RunOut { log: Vec::new(), config: conf.clone(), hv: hv0, final_conf: Vec::new(), done_invoke: false, ext_left: 0, blocked: false, steps: 0 };
    let mut queue: Vec<u32> = Vec::new();
    let mut fe = 0u32;
    let mut bodies = 0u32;
    let mut running = true;
    let mut xi = 0usize;
    let mut to_invoke: Vec<u32> = Vec::new();
    let mut started: Vec<usize> = Vec::new();          // invoke indices in start order
    let mut want_cancel: Vec<String> = Vec::new();     // targets of the cancel events
    // session id of the running instance of every invoke (0 = none): hand-registered children have 100 + k, a started child gets
    // the executor's next id, i.e. the smallest id the executor handed out during the real run plus its position in start order
    let mut first_dyn = 0u32;
    { let st = ex.state.lock().unwrap(); for (sid, _s) in st.sessions.iter() { if first_dyn == 0 || *sid < first_dyn { first_dyn = *sid; } } }
    let mut sid_run: Vec<u32> = Vec::new();
    let mut k = 0; while k < ninv { sid_run.push(if active[k] { 100 + k as u32 } else { 0 }); k += 1; }
    let mut fwd: Vec<Vec<u32>> = Vec::new();           // per invoke: kinds of the events forwarded to its child
    let mut k = 0; while k < ninv { fwd.push(Vec::new()); k += 1; }
    let mut steps = 0u32;
    let mut blocked = false;
    'outer: while running {
        loop {
            if !running { break; }
            let c = mask_of(&out.config);
            let mut errors = 0u32;
            let mut sel = r.select(c, true, 0, &guards, &out.hv, &mut out.log, &mut errors);
            let mut e = 0; while e < errors { queue.push(9); e += 1; }
            if sel.is_empty() {
                if queue.is_empty() { break; }
                let q = queue.remove(0);
                let (name, code) = if q == 1 { (5, 5) } else if q == 2 { (6, 6) } else if q == 9 { (8, 8) } else { (7, 7) };
                out.log.push(TOK_EV + code);
                let mut errors = 0u32;
                sel = r.select(c, false, name, &guards, &out.hv, &mut out.log, &mut errors);
                let mut e = 0; while e < errors { queue.push(9); e += 1; }
            }
            if !sel.is_empty() {
                steps += 1;
                if steps > 12 { blocked = true; break 'outer; }
                let ro = r.microstep(&out.config, &sel, &out.hv, &mut fe);
                track(&ro.log, sh, &invs, &mut to_invoke, &mut sid_run, &mut want_cancel);
                r.absorb(&ro, &mut out, &mut queue, &effects, 1000, &mut bodies);
                if !ro.running { running = false; }
            }
        }
        if !running { break; }
        // end of the macrostep: invoke what was entered and is still active, in entry order, invokes in document order
        for s in sh.ordered(mask_of(&to_invoke)) {
            let mut k = 0;
            while k < ninv {
                if invs[k].state == s {
                    out.log.push(TOK_INV + k as u32);
                    // an invoke whose arguments cannot be evaluated raises error.execution and starts nothing
                    if invs[k].fails { queue.push(9); } else { sid_run[k] = first_dyn + started.len() as u32; started.push(k); }
                }
                k += 1;
            }
        }
        to_invoke.clear();
        if !queue.is_empty() { continue; }
        // next external event; events from sessions that are not invoked (any more) are skipped
        let x;
        loop {
            if xi >= exts.len() { x = Ext { kind: 9, from: 0 }; break; }
            let cand = &exts[xi]; xi += 1;
            if cand.kind == 3 { continue; }
            // ... including the done.invoke of a child that was cancelled before ("processes no event from a child after cancelling it")
            if (cand.kind == 1 || cand.kind == 2) && sid_run[cand.from] == 0 { continue; }
            // the queued events of the id-less invoke carry the id of its hand-registered instance (session ids >= 100); an
            // instance started later runs under a generated id, so for it these events come from an unknown session
            if (cand.kind == 1 || cand.kind == 2) && invs[cand.from].state == 3 && sid_run[cand.from] < 100 { continue; }
            x = Ext { kind: cand.kind, from: cand.from };
            break;
        }
        if x.kind == 9 { running = false; continue; }
        if x.kind == 2 { sid_run[x.from] = 0; }
        out.log.push(TOK_EV + if x.kind == 0 { 1 } else { 9 });
        // finalize of the invoke the event comes from (only that one), before transitions are selected
        if x.kind == 1 { out.log.push(X_FIN + x.from as u32); }
        // autoforward: every external event goes to every running child whose invoke has autoforward
        let mut k = 0;
        while k < ninv { if sid_run[k] != 0 && invs[k].auto { fwd[k].push(x.kind); } k += 1; }
        let c = mask_of(&out.config);
        let mut errors = 0u32;
        let sel = r.select(c, false, if x.kind == 0 { 1 } else { 9 }, &guards, &out.hv, &mut out.log, &mut errors);
        let mut e = 0; while e < errors { queue.push(9); e += 1; }
        if !sel.is_empty() {
            steps += 1;
            if steps > 12 { blocked = true; break 'outer; }
            let ro = r.microstep(&out.config, &sel, &out.hv, &mut fe);
            track(&ro.log, sh, &invs, &mut to_invoke, &mut sid_run, &mut want_cancel);
            r.absorb(&ro, &mut out, &mut queue, &effects, 1000, &mut bodies);
            if !ro.running { running = false; }
        }
    }
    vnd_assume(!blocked);
    // exitInterpreter: every child still running is cancelled, every active state is exited
    let mut still: Vec<bool> = Vec::new();
    let mut k = 0; while k < ninv { still.push(sid_run[k] != 0); k += 1; }
    let mut exl = sh.ordered(mask_of(&out.config)); exl.reverse();
    for s in exl { out.log.push(X_EXIT + s); }

    vnd_cover(1401);
    // (1) the whole trace: invokes start exactly for the states entered and still active at the end of the macrostep, once, in
    //     entry/document order; finalize of exactly the originating invoke runs before selection; nothing for unknown children
    if vnd_is_replay() { println!("REAL {:?}\nREF  {:?}\nconf {:?}", dm.log, out.log, conf); }
    vnd_check(1401, dm.log == out.log);
    // (2) cancellation: exactly the children of exited states (and, at the end, every child still running) receive one cancel event
    let gd = g.lock().unwrap();
    let mut k = 0; while k < ninv { if sid_run[k] != 0 { want_cancel.push(format!("#_scxml_{}", sid_run[k])); } k += 1; }
    let mut got_cancel: Vec<String> = Vec::new();
    for (t, n, _) in &dm.sends { if n == EVENT_CANCEL_SESSION { got_cancel.push(t.clone()); } }
    want_cancel.sort(); got_cancel.sort();
    vnd_check(1402, got_cancel == want_cancel);
    // (3) the session table: exactly the running children are registered, under their invoke ids
    let mut ok_tab = true; let mut nreg = 0;
    let mut k = 0;
    while k < ninv {
        // an instance started by the platform for the id-less invoke of state 3 is registered under a generated id "s3.<n>"
        let generated = invs[k].state == 3 && started.contains(&k);
        let mut present = gd.child_sessions.contains_key(&invs[k].id);
        if generated { present = false; for key in gd.child_sessions.keys() { if key.starts_with("s3.") { present = true; } } }
        if still[k] != present { ok_tab = false; }
        if still[k] { nreg += 1; }
        k += 1;
    }
    vnd_check(1403, ok_tab && gd.child_sessions.len() == nreg);
    // (4) autoforward: the hand-registered children received exactly the forwarded events, in order
    let mut ok_fwd = true;
    let mut k = 0;
    while k < ninv {
        if let Some(cg) = &child_q[k] {
            let rx = cg.lock().unwrap().externalQueue.receiver.clone();
            let mut got: Vec<u32> = Vec::new();
            loop { let e = rx.lock().unwrap().try_recv(); match e { Ok(ev) => got.push(if ev.name == "e1" { 0 } else if ev.name.starts_with("done.invoke.") { 2 } else { 1 }), Err(_) => break } }
            // the hand-registered instance is the one whose queue the harness holds; events forwarded to a later instance of the
            // same invoke (state left and re-entered) go to a fresh session and are not counted here
            if !started.contains(&k) && got != fwd[k] { ok_fwd = false; }
        }
        k += 1;
    }
    vnd_check(1404, ok_fwd);
    // (5) one session started per invoke start
    let nsess = ex.state.lock().unwrap().sessions.len();
    vnd_check(1405, nsess == started.len());
    vnd_obs(1, dm.log.len() as u64);
    vnd_obs(2, started.len() as u64);
    vnd_obs(3, got_cancel.len() as u64);
}

/// entries / exits of one microstep: keeps statesToInvoke and cancels the children of exited states
fn track(log: &[u32], sh: &Shape, invs: &[Inv], to_invoke: &mut Vec<u32>, sid_run: &mut Vec<u32>, want_cancel: &mut Vec<String>) {
    let n = sh.n as u32;
    for tok in log {
        if *tok > X_ENTRY && *tok <= X_ENTRY + n { let s = *tok - X_ENTRY; if !to_invoke.contains(&s) { to_invoke.push(s); } }
        if *tok > X_EXIT && *tok <= X_EXIT + n {
            let s = *tok - X_EXIT;
            to_invoke.retain(|x| *x != s);
            let mut k = 0;
            while k < invs.len() { if invs[k].state == s && sid_run[k] != 0 { want_cancel.push(format!("#_scxml_{}", sid_run[k])); sid_run[k] = 0; } k += 1; }
        }
    }
}

/// a real child session: started from inline XML with two values (one for a declared <data>, one for an undeclared name), runs on
/// its own thread (engine M: executed when joined), sends an event to its parent and ends in a top-level final state
fn child() {
    let v = vnd_i64(1);
    let w = vnd_i64(2);
    let declared_first = vnd_bool(3);
    let ex = FsmExecutor::new_without_io_processor();
    // the parent: session 2, registered by hand
    let pg = create_global_data_arc();
    {
        let mut l = pg.lock().unwrap();
        l.session_id = 2;
        let sender = l.externalQueue.sender.clone();
        let mut s = ScxmlSession::new_without_join_handle(2, sender);
        s.global_data = pg.clone();
        ex.state.lock().unwrap().sessions.insert(2, s);
    }
    let doc = "<scxml version=\"1.0\" datamodel=\"rfsm-expression\" initial=\"a\">\
<datamodel><data id=\"a\" expr=\"1\"/><data id=\"keep\" expr=\"5\"/></datamodel>\
<state id=\"a\"><onentry><send target=\"#_parent\" event=\"hello\"><param name=\"a\" expr=\"a\"/><param name=\"keep\" expr=\"keep\"/></send></onentry>\
<transition target=\"f\"/></state><final id=\"f\"/></scxml>";
    let pa = ParamPair::new("a", &Data::Integer(v));
    let pb = ParamPair::new("b", &Data::Integer(w));
    let data = if declared_first { vec![pa, pb] } else { vec![pb, pa] };
    let mut ex2 = ex.clone();
    let res = ex2.execute_with_data_from_xml(doc, ActionWrapper::new(), &data, Some(2), &"k1".to_string(), FinishMode::DISPOSE);
    vnd_cover(1450);
    vnd_check(1450, res.is_ok());
    let mut session = res.unwrap();
    let child_id = session.session_id;
    if let Some(h) = session.thread.take() { let _ = h.join(); }
    // what the parent received
    let rx = pg.lock().unwrap().externalQueue.receiver.clone();
    let mut got: Vec<Event> = Vec::new();
    loop { let e = rx.lock().unwrap().try_recv(); match e { Ok(ev) => got.push(*ev), Err(_) => break } }
    let int_param = |e: &Event, name: &str| -> Option<i64> { match &e.param_values { None => None, Some(v) => { for p in v { if p.name == name { if let Data::Integer(i) = p.value { return Some(i); } } } None } } };
    // child events first, done.invoke.<id> last and once, both stamped with the invoke id
    vnd_check(1451, got.len() == 2 && got[0].name == "hello" && got[1].name == "done.invoke.k1");
    vnd_check(1452, got.len() == 2 && got[0].invoke_id == Some("k1".to_string()) && got[1].invoke_id == Some("k1".to_string()));
    // the declared <data> took the passed value, other declarations keep theirs
    vnd_check(1453, got.len() == 2 && int_param(&got[0], "a") == Some(v) && int_param(&got[0], "keep") == Some(5));
    // the undeclared name was not created in the child's data model
    let cg = session.global_data.clone();
    let has_b = cg.lock().unwrap().data.get(&"b".to_string()).is_some();
    vnd_check(1454, !has_b);
    // (the executor keeps the finished session in its table: FinishMode::DISPOSE does nothing in this version; not part of C14)
    let _ = child_id;
    vnd_obs(1, got.len() as u64);
}

/// C12: an <invoke> whose inline content the reader rejects "cannot be started": the parent (whose thread runs this code) must get
/// an error back, not a panic.  The documents are well-formed XML; the reader reports each of them as non-conformant.
const BAD_DOCS: [&str; 8] = [
    "<scxml version=\"1.0\" datamodel=\"null\" initial=\"c\"><state id=\"c\"><transition type=\"bogus\" event=\"e\" target=\"c\"/></state></scxml>",
    "<scxml version=\"1.0\" datamodel=\"null\"><state id=\"c\" initial=\"d\"><initial><transition target=\"d\"/></initial><state id=\"d\"/></state></scxml>",
    "<scxml version=\"1.0\" datamodel=\"null\" binding=\"sometimes\"><state id=\"c\"/></scxml>",
    "<scxml version=\"1.0\" datamodel=\"null\"><scxml><state id=\"c\"/></scxml></scxml>",
    "<scxml version=\"1.0\" datamodel=\"null\"><state id=\"c\"><onentry><assign location=\"x\" expr=\"1\">2</assign></onentry></state></scxml>",
    "<scxml version=\"1.0\" datamodel=\"null\"><raise event=\"e\"/><state id=\"c\"/></scxml>",
    "<scxml version=\"1.0\" datamodel=\"null\"><state id=\"c\"><onentry><send/><foreach item=\"i\"/></onentry></state></scxml>",
    "<scxml version=\"1.0\" datamodel=\"null\"><state id=\"c\"><transition event=\"e\" target=\"nowhere\"/></state></scxml>",
];

fn invoke_bad() {
    let k = vnd_range(0, 8, 1) as usize;
    let ex = FsmExecutor::new_without_io_processor();
    let pg = create_global_data_arc();
    {
        let mut l = pg.lock().unwrap();
        l.session_id = 2;
        let sender = l.externalQueue.sender.clone();
        let mut s = ScxmlSession::new_without_join_handle(2, sender);
        s.global_data = pg.clone();
        ex.state.lock().unwrap().sessions.insert(2, s);
    }
    let doc = if k < 8 { BAD_DOCS[k] } else { CHILD_DOC };
    let mut ex2 = ex.clone();
    let res = ex2.execute_with_data_from_xml(doc, ActionWrapper::new(), &[], Some(2), &"k1".to_string(), FinishMode::DISPOSE);
    // reached = the call came back to the invoking session thread (a panic inside ends the path before this point)
    vnd_cover(1220);
    vnd_check(1220, k < 8 || res.is_ok());
    vnd_obs(1, if res.is_ok() { 1 } else { 0 });
    // the executor stays usable: its state lock is neither held nor poisoned
    let alive = ex.state.lock().is_ok();
    vnd_check(1221, alive);
    if let Ok(session) = res { std::mem::forget(session); }
}
