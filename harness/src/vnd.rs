//! Nondeterminism API shared by the three ways a harness is run:
//! engine M intercepts these functions by name, Kani maps them to kani::any()/assume/assert,
//! the native replay reads the values from the replay vector.
#![allow(dead_code)]
#[cfg(not(kani))]
use std::sync::Mutex;

#[cfg(not(kani))]
pub struct ReplayState {
    pub values: Vec<(String, String)>,
    pub pos: usize,
    pub failed: Vec<u32>,
    pub exhausted: bool,
}
#[cfg(not(kani))]
pub static REPLAY: Mutex<ReplayState> = Mutex::new(ReplayState { values: Vec::new(), pos: 0, failed: Vec::new(), exhausted: false });

#[cfg(not(kani))]
fn next_raw(ty: &str) -> String {
    let mut r = REPLAY.lock().unwrap();
    if r.pos >= r.values.len() {
        r.exhausted = true;
        return "0".to_string();
    }
    let (t, v) = r.values[r.pos].clone();
    r.pos += 1;
    if t != ty {
        println!("REPLAY-TYPE-MISMATCH want {} have {}", ty, t);
    }
    v
}

#[cfg(not(kani))]
pub fn vnd_u8(_tag: u32) -> u8 { next_raw("u8").parse::<u64>().unwrap_or(0) as u8 }
#[cfg(not(kani))]
pub fn vnd_u16(_tag: u32) -> u16 { next_raw("u16").parse::<u64>().unwrap_or(0) as u16 }
#[cfg(not(kani))]
pub fn vnd_u32(_tag: u32) -> u32 { next_raw("u32").parse::<u64>().unwrap_or(0) as u32 }
#[cfg(not(kani))]
pub fn vnd_u64(_tag: u32) -> u64 { next_raw("u64").parse::<u64>().unwrap_or(0) }
#[cfg(not(kani))]
pub fn vnd_usize(_tag: u32) -> usize { next_raw("usize").parse::<u64>().unwrap_or(0) as usize }
#[cfg(not(kani))]
pub fn vnd_i64(_tag: u32) -> i64 { next_raw("i64").parse::<u64>().unwrap_or(0) as i64 }
#[cfg(not(kani))]
pub fn vnd_bool(_tag: u32) -> bool { let v = next_raw("bool"); v == "1" || v == "true" || v == "True" }
#[cfg(not(kani))]
pub fn vnd_range(lo: u32, hi: u32, _tag: u32) -> u32 { let v = next_raw("u32").parse::<u64>().unwrap_or(0) as u32; if v < lo { lo } else if v > hi { hi } else { v } }
#[cfg(not(kani))]
pub fn vnd_char(_tag: u32) -> char { char::from_u32(next_raw("char").parse::<u64>().unwrap_or(0) as u32).unwrap_or('a') }
#[cfg(not(kani))]
pub fn vnd_f64(_tag: u32) -> f64 { f64::from_bits(next_raw("f64").parse::<u64>().unwrap_or(0)) }
#[cfg(not(kani))]
pub fn vnd_assume(c: bool) { if !c { println!("ASSUME-FAILED"); } }
#[cfg(not(kani))]
pub fn vnd_check(id: u32, c: bool) {
    println!("CHECK {} {}", id, if c { 1 } else { 0 });
    if !c { REPLAY.lock().unwrap().failed.push(id); }
}
#[cfg(not(kani))]
pub fn vnd_check_kf(id: u32, c: bool, kf: u32, k: bool) {
    println!("CHECK {} {} KF {} {}", id, if c { 1 } else { 0 }, kf, if k { 1 } else { 0 });
    if !c { REPLAY.lock().unwrap().failed.push(id); }
}
#[cfg(not(kani))]
pub fn vnd_kf_scope(kf: u32, k: bool) { println!("KFSCOPE {} {}", kf, if k { 1 } else { 0 }); }
#[cfg(not(kani))]
pub fn vnd_kf_scope_end() { println!("KFSCOPE-END"); }
#[cfg(not(kani))]
pub fn vnd_cover(id: u32) { println!("COVER {}", id); }
#[cfg(not(kani))]
pub fn vnd_obs(tag: u32, v: u64) { println!("OBS {} {}", tag, v); }
#[cfg(not(kani))]
pub fn vnd_is_replay() -> bool { true }
/// run the i-th thread spawned so far (engine M only; natively threads run by themselves)
pub fn vnd_run_spawned(_i: u32) {}
pub fn vnd_spawned_count() -> u32 { 0 }

#[cfg(kani)]
pub fn vnd_u8(_tag: u32) -> u8 { kani::any() }
#[cfg(kani)]
pub fn vnd_u16(_tag: u32) -> u16 { kani::any() }
#[cfg(kani)]
pub fn vnd_u32(_tag: u32) -> u32 { kani::any() }
#[cfg(kani)]
pub fn vnd_u64(_tag: u32) -> u64 { kani::any() }
#[cfg(kani)]
pub fn vnd_usize(_tag: u32) -> usize { kani::any() }
#[cfg(kani)]
pub fn vnd_i64(_tag: u32) -> i64 { kani::any() }
#[cfg(kani)]
pub fn vnd_bool(_tag: u32) -> bool { kani::any() }
#[cfg(kani)]
pub fn vnd_range(lo: u32, hi: u32, _tag: u32) -> u32 { let v: u32 = kani::any(); kani::assume(v >= lo && v <= hi); v }
#[cfg(kani)]
pub fn vnd_char(_tag: u32) -> char { kani::any() }
#[cfg(kani)]
pub fn vnd_f64(_tag: u32) -> f64 { kani::any() }
#[cfg(kani)]
pub fn vnd_assume(c: bool) { kani::assume(c) }
#[cfg(kani)]
pub fn vnd_check(_id: u32, c: bool) { assert!(c) }
#[cfg(kani)]
pub fn vnd_check_kf(_id: u32, c: bool, _kf: u32, k: bool) { assert!(k || c) }
#[cfg(kani)]
pub fn vnd_kf_scope(_kf: u32, k: bool) { kani::assume(!k) }
#[cfg(kani)]
pub fn vnd_kf_scope_end() {}
#[cfg(kani)]
pub fn vnd_cover(_id: u32) { kani::cover!(true) }
#[cfg(kani)]
pub fn vnd_obs(_tag: u32, _v: u64) {}
#[cfg(kani)]
pub fn vnd_is_replay() -> bool { false }

/// returns `v` (assumed <= max) as a path constant: engine M forks over the values, natively the identity
pub fn vnd_conc(v: u32, max: u32) -> u32 { let mut i = 0; while i < max { if v == i { return i; } i += 1; } max }

/// engine M: fires the i-th scheduled timer entry if its guard is alive and it has not fired (returns whether it fired);
/// natively the real timer thread fires by itself: wait long enough for every short delay used by the harnesses
#[cfg(not(kani))]
pub fn vnd_timer_fire(_i: u32) -> bool { std::thread::sleep(std::time::Duration::from_millis(350)); true }
#[cfg(not(kani))]
pub fn vnd_timer_alive(_i: u32) -> bool { true }
#[cfg(kani)]
pub fn vnd_timer_fire(_i: u32) -> bool { true }
#[cfg(kani)]
pub fn vnd_timer_alive(_i: u32) -> bool { true }

/// engine M: the following calls are made by thread role `role` (lock-order analysis); natively a no-op
pub fn vnd_thread(_role: u32) {}
