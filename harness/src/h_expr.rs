//! C10 / C11: rfsm-expression language — operator kernels, precedence / associativity, cache, termination without panic or self-deadlock.
use crate::vnd::*;
use rufsm::datamodel::expression_engine::RFsmExpressionDatamodel;
use rufsm::datamodel::*;
use rufsm::expression_engine::expressions::ExpressionResult;
use rufsm::expression_engine::parser::ExpressionParser;

macro_rules! harnesses {
    ($($name:ident => $body:expr),* $(,)?) => {
        pub fn run(name: &str) -> bool {
            match name { $( stringify!($name) => $name(), )* _ => return false, }
            true
        }
        $( pub fn $name() { $body } )*
    };
}

harnesses! {
    h_c10_intops => int_ops(),
    h_c10_prec => precedence(),
    h_c10_prec3 => precedence3(),
    h_c10_mixed => mixed_catalogue(),
    h_c10_cache => cache_vs_fresh(),
    h_c10_tree => tree_shape(),
    h_c10_cache2 => cache_init_assign(),
    h_c10_assign => assignment(),
    h_c11_alias => alias_no_deadlock(),
    h_c11_lex2 => lexer_terminates(2),
    h_c11_lex3 => lexer_terminates(3),
    h_c11_texts => bad_texts(),
    h_c10_float => float_ops(),
}

pub const KF_MINUS_ADJACENT: u32 = 1002;

fn int_of(d: &Data) -> Option<i64> { match d { Data::Integer(v) => Some(*v), _ => None } }

/// Integer (x) Integer operators stay Integer and saturate; % by zero / overflow yields an error value, never a panic
fn int_ops() {
    let x = vnd_i64(1);
    let y = vnd_i64(2);
    let (a, b) = (Data::Integer(x), Data::Integer(y));
    vnd_cover(1001);
    vnd_check(1001, int_of(&operation_plus(&a, &b)) == Some(x.saturating_add(y)));
    vnd_check(1002, int_of(&operation_minus(&a, &b)) == Some(x.saturating_sub(y)));
    vnd_check(1003, int_of(&operation_multiply(&a, &b)) == Some(x.saturating_mul(y)));
    let m = operation_modulus(&a, &b);
    let defined = y != 0 && !(x == i64::MIN && y == -1);
    vnd_check(1004, if defined { int_of(&m) == Some(x % y) } else { match m { Data::Error(_) => true, Data::Integer(v) => y == -1 && v == 0, _ => false } });
    vnd_check(1005, match operation_equal(&a, &b) { Data::Boolean(r) => r == (x == y), _ => false });
    // comparisons of two Integers are exact for every pair
    let cmp_ok = |d: Data, want: bool| -> bool { match d { Data::Boolean(r) => r == want, _ => false } };
    vnd_check(1006, cmp_ok(operation_less(&a, &b), x < y) && cmp_ok(operation_less_equal(&a, &b), x <= y)
        && cmp_ok(operation_greater(&a, &b), x > y) && cmp_ok(operation_greater_equal(&a, &b), x >= y));
    vnd_obs(1, int_of(&operation_plus(&a, &b)).unwrap_or(0) as u64);
}

const OPS: [&str; 5] = ["+", "-", "*", "%", "-"];

fn apply(op: usize, a: i64, b: i64) -> Option<i64> {
    match op { 0 => Some(a.saturating_add(b)), 1 | 4 => Some(a.saturating_sub(b)), 2 => Some(a.saturating_mul(b)), _ => a.checked_rem(b) }
}
fn tight(op: usize) -> bool { op == 2 || op == 3 }

fn eval_text(text: &str, a: i64, b: i64, c: i64, d: i64) -> ExpressionResult {
    let g = create_global_data_arc();
    {
        let mut gd = g.lock().unwrap();
        gd.data.set_undefined("a".to_string(), Data::Integer(a));
        gd.data.set_undefined("b".to_string(), Data::Integer(b));
        gd.data.set_undefined("c".to_string(), Data::Integer(c));
        gd.data.set_undefined("d".to_string(), Data::Integer(d));
    }
    let e = ExpressionParser::parse(text.to_string());
    match e {
        Err(m) => Err(m),
        Ok(ex) => { let mut gd = g.lock().unwrap(); ex.execute(&mut gd, false) }
    }
}

fn result_int(r: &ExpressionResult) -> Option<i64> {
    match r { Ok(v) => { let d = v.lock().unwrap(); int_of(&d) } Err(_) => None }
}

/// "a op1 b op2 c" over all operator pairs with arbitrary integer operands: documented precedence, equal precedence groups left to right
fn precedence() {
    let o1 = vnd_conc(vnd_range(0, 3, 1), 3) as usize;
    let o2 = vnd_conc(vnd_range(0, 3, 2), 3) as usize;
    let (a, b, c) = (vnd_i64(3), vnd_i64(4), vnd_i64(5));
    // keep % defined (its error behaviour is decided by h_c10_intops)
    vnd_assume(b > 0 && b < 1000 && c > 0 && c < 1000);
    let spaced = vnd_bool(6);
    let text = if spaced { format!("a {} b {} c", OPS[o1], OPS[o2]) } else { format!("(a {} b) {} c", OPS[o1], OPS[o2]) };
    let text2 = format!("a {} b {} c", OPS[o1], OPS[o2]);
    let r = eval_text(if spaced { text2.as_str() } else { text.as_str() }, a, b, c, 0);
    let expect_left = apply(o1, a, b).and_then(|x| apply(o2, x, c));
    let expect = if spaced && tight(o2) && !tight(o1) { apply(o2, b, c).and_then(|x| apply(o1, a, x)) } else { expect_left };
    vnd_cover(1010);
    vnd_check(1010, r.is_ok() && result_int(&r) == expect);
    vnd_obs(1, result_int(&r).unwrap_or(7) as u64);
}

const BINOPS: [&str; 13] = ["+", "-", "*", "/", "%", "<", "<=", ">", ">=", "==", "!=", "&", "|"];
fn prio_of(op: usize) -> u32 { match op { 2 | 3 | 4 | 11 => 5, 0 | 1 | 12 => 6, 5 | 6 | 7 | 8 => 9, _ => 10 } }

fn op_code(o: &rufsm::expression_engine::lexer::Operator) -> usize {
    use rufsm::expression_engine::lexer::Operator::*;
    match o { Plus => 0, Minus => 1, Multiply => 2, Divide => 3, Modulus => 4, Less => 5, LessEqual => 6, Greater => 7, GreaterEqual => 8, Equal => 9, NotEqual => 10, And => 11, Or => 12, _ => 99 }
}

/// grouping of "a op1 b op2 c" for EVERY pair of binary operators, read off the parsed tree: the documented priority table decides,
/// equal priority groups left to right
fn tree_shape() {
    use rufsm::expression_engine::expressions::{get_expression_as, ExpressionOperator, ExpressionVariable};
    use std::ops::Deref;
    let o1 = vnd_conc(vnd_range(0, 12, 1), 12) as usize;
    let o2 = vnd_conc(vnd_range(0, 12, 2), 12) as usize;
    let text = format!("a {} b {} c", BINOPS[o1], BINOPS[o2]);
    let r = ExpressionParser::parse(text);
    vnd_cover(1060);
    match r {
        Err(_) => vnd_check(1060, false),
        Ok(e) => {
            let right_first = prio_of(o2) < prio_of(o1);
            let ok = match get_expression_as::<ExpressionOperator>(e.deref()) {
                None => false,
                Some(top) => {
                    if right_first {
                        // a op1 (b op2 c)
                        op_code(&top.operator) == o1
                            && get_expression_as::<ExpressionVariable>(top.left.deref()).map(|v| v.name == "a").unwrap_or(false)
                            && get_expression_as::<ExpressionOperator>(top.right.deref()).map(|x| op_code(&x.operator) == o2).unwrap_or(false)
                    } else {
                        // (a op1 b) op2 c
                        op_code(&top.operator) == o2
                            && get_expression_as::<ExpressionVariable>(top.right.deref()).map(|v| v.name == "c").unwrap_or(false)
                            && get_expression_as::<ExpressionOperator>(top.left.deref()).map(|x| op_code(&x.operator) == o1).unwrap_or(false)
                    }
                }
            };
            vnd_check(1060, ok);
        }
    }
    vnd_obs(1, (o1 * 13 + o2) as u64);
}

/// three operators, concrete small operands chosen by the solver from a range: "a op1 b op2 c op3 d"
fn precedence3() {
    let o1 = vnd_conc(vnd_range(0, 2, 1), 2) as usize;
    let o2 = vnd_conc(vnd_range(0, 2, 2), 2) as usize;
    let o3 = vnd_conc(vnd_range(0, 2, 3), 2) as usize;
    let (a, b, c, d) = (vnd_i64(4), vnd_i64(5), vnd_i64(6), vnd_i64(7));
    let text = format!("a {} b {} c {} d", OPS[o1], OPS[o2], OPS[o3]);
    let r = eval_text(text.as_str(), a, b, c, d);
    // reference: precedence climbing with * tighter than + and -, left to right
    let mut vals = vec![a, b, c, d];
    let mut ops = vec![o1, o2, o3];
    let mut i = 0;
    while i < ops.len() { if tight(ops[i]) { let v = apply(ops[i], vals[i], vals[i + 1]).unwrap(); vals[i] = v; vals.remove(i + 1); ops.remove(i); } else { i += 1; } }
    let mut acc = vals[0];
    let mut j = 0;
    while j < ops.len() { acc = apply(ops[j], acc, vals[j + 1]).unwrap(); j += 1; }
    vnd_cover(1011);
    vnd_check(1011, result_int(&r) == Some(acc));
    vnd_obs(1, result_int(&r).unwrap_or(7) as u64);
}

fn kind_of(d: &Data) -> u32 {
    match d { Data::Integer(_) => 1, Data::Double(_) => 2, Data::String(_) => 3, Data::Boolean(_) => 4, Data::Array(_) => 5, Data::Map(_) => 6, Data::Null() => 7, Data::Error(_) => 8, Data::Source(_) => 9, Data::None() => 10 }
}
fn data_eq(r: &ExpressionResult, d: &Data) -> bool { match r { Ok(v) => { let x = v.lock().unwrap(); *x == *d && kind_of(&x) == kind_of(d) } Err(_) => false } }

/// catalogue of concrete expressions covering the documented semantics (mixed types, comparison, logic, aggregation, member / index access, whitespace and parentheses)
fn mixed_catalogue() {
    let k = vnd_conc(vnd_range(0, 37, 1), 37);
    let (t, want): (&str, Data) = match k {
        // string comparisons at the boundary (equal operands) and away from it
        32 => ("'abc' >= 'abc'", Data::Boolean(true)),
        33 => ("'abc' <= 'abc'", Data::Boolean(true)),
        34 => ("'abc' > 'abc'", Data::Boolean(false)),
        35 => ("'abc' < 'abc'", Data::Boolean(false)),
        36 => ("'abd' >= 'abc'", Data::Boolean(true)),
        37 => ("'abc' >= 'abd'", Data::Boolean(false)),
        // comparisons of Integers beyond 2^53 (exact, not through f64)
        28 => ("9007199254740993 > 9007199254740992", Data::Boolean(true)),
        29 => ("9223372036854775806 < 9223372036854775807", Data::Boolean(true)),
        30 => ("9007199254740993 <= 9007199254740992", Data::Boolean(false)),
        31 => ("9007199254740992 >= 9007199254740993", Data::Boolean(false)),
        0 => ("10 - 4 - 3", Data::Integer(3)),
        1 => ("8 - 3 + 1", Data::Integer(6)),
        2 => ("100 / 10 / 5", Data::Double(2.0)),
        3 => ("2 + 3 * 4", Data::Integer(14)),
        4 => ("2 * 3 + 4", Data::Integer(10)),
        5 => ("7 / 2", Data::Double(3.5)),
        6 => ("1 + 2.5", Data::Double(3.5)),
        7 => ("'a' + 'b' + 1", Data::String("ab1".to_string())),
        8 => ("(1 < 2) & (2 < 3)", Data::Boolean(true)),
        9 => ("1 + 1 == 2", Data::Boolean(true)),
        10 => ("(3 > 2) | (1 > 2)", Data::Boolean(true)),
        11 => ("'abc' < 'abd'", Data::Boolean(true)),
        12 => ("2 <= 2 & 3 >= 4", Data::Boolean(false)),
        13 => ("!(1 == 2)", Data::Boolean(true)),
        14 => ("1 != 2", Data::Boolean(true)),
        15 => ("(2 + 3) * 4", Data::Integer(20)),
        16 => ("  2+3 *4 ", Data::Integer(14)),
        17 => ("((2)) + (3)", Data::Integer(5)),
        18 => ("10-4", Data::Integer(6)),
        19 => ("a-e", Data::Integer(3)),
        20 => ("length([1,2] + [3])", Data::Integer(3)),
        21 => ("{'x':1}.x + 1", Data::Integer(2)),
        22 => ("[5,6,7][1]", Data::Integer(6)),
        23 => ("9223372036854775807 + 1", Data::Integer(i64::MAX)),
        24 => ("7 % 4", Data::Integer(3)),
        25 => ("1 == 1.0", Data::Boolean(true)),
        26 => ("10 - 2 * 3 - 1", Data::Integer(3)),
        _ => ("2 * 3 % 4", Data::Integer(2)),
    };
    let g = create_global_data_arc();
    {
        let mut gd = g.lock().unwrap();
        RFsmExpressionDatamodel::add_internal_functions_to_wrapper(&mut gd.actions);
        gd.data.set_undefined("a".to_string(), Data::Integer(5));
        gd.data.set_undefined("e".to_string(), Data::Integer(2));
    }
    let r = ExpressionParser::execute(t.to_string(), &mut g.lock().unwrap());
    vnd_cover(1020);
    // known finding: a '-' directly followed by a digit or by e/E after an operand is lexed as the start of a number
    vnd_check_kf(1020, data_eq(&r, &want), KF_MINUS_ADJACENT, k == 18 || k == 19);
    vnd_obs(1, if r.is_ok() { 1 } else { 0 });
}

/// the value is the same whether compiled afresh (source id 0) or served from the session's compilation cache
fn cache_vs_fresh() {
    let g = create_global_data_arc();
    let x = vnd_i64(1);
    { let mut gd = g.lock().unwrap(); gd.data.set_undefined("a".to_string(), Data::Integer(x)); gd.data.set_undefined("b".to_string(), Data::Integer(3)); }
    let k = vnd_conc(vnd_range(0, 3, 2), 3);
    let text = match k { 0 => "a + b * 2", 1 => "a - b - 1", 2 => "[a, b][1] + a", _ => "a * b + a" };
    let mut dm = RFsmExpressionDatamodel::new(g.clone());
    let fresh = dm.execute(&Data::Source(SourceCode::new(text, 0)));
    let first = dm.execute(&Data::Source(SourceCode::new(text, 77)));
    let cached = dm.execute(&Data::Source(SourceCode::new(text, 77)));
    let f = result_int(&fresh); let c1 = result_int(&first); let c2 = result_int(&cached);
    vnd_cover(1030);
    vnd_check(1030, fresh.is_ok() && f == c1 && c1 == c2);
    // a different text under a different id is not confused with the cached one
    let other = dm.execute(&Data::Source(SourceCode::new("b", 78)));
    vnd_check(1031, result_int(&other) == Some(3));
    // sources without an id (param / content / location expressions) are never served from the cache: two different id-less
    // texts evaluated one after the other each give their own value
    let idless = dm.execute(&Data::Source(SourceCode::new("b + 1", 0)));
    let again = dm.execute(&Data::Source(SourceCode::new(text, 0)));
    vnd_check(1032, result_int(&idless) == Some(4) && result_int(&again) == f);
    vnd_obs(1, f.unwrap_or(0) as u64);
}

/// a cached expression evaluated a second time on a changed store behaves like a fresh compilation (kinds of nodes survive get_copy)
fn cache_init_assign() {
    let k = vnd_conc(vnd_range(0, 5, 1), 5);
    let text = match k { 5 => "v ?= [1, 2, 3]; v[0]", 0 => "m[key] ?= 1", 1 => "n ?= b", 2 => "!(b == 3) | (b < 4)", 3 => "[b, 1][0] + {'x': b}.x", _ => "b = b + 1" };
    let run = |cached: bool| -> (bool, bool, String) {
        let g = create_global_data_arc();
        { let mut gd = g.lock().unwrap();
          gd.data.set_undefined("m".to_string(), Data::Map(std::collections::HashMap::new()));
          gd.data.set_undefined("key".to_string(), Data::String("a".to_string()));
          gd.data.set_undefined("b".to_string(), Data::Integer(3)); }
        let mut dm = RFsmExpressionDatamodel::new(g.clone());
        let id = if cached { 77 } else { 0 };
        let r1 = dm.execute(&Data::Source(SourceCode::new(text, id)));
        // the store changes between the two evaluations (for the literal of text 5: an element of the stored array is assigned,
        // then the variable is removed: the second evaluation must build the literal [1, 2, 3] again)
        if k == 5 { let _ = dm.execute(&Data::Source(SourceCode::new("v[0] = 99", 0))); g.lock().unwrap().data.map.remove("v"); }
        { let mut gd = g.lock().unwrap(); gd.data.set_undefined("key".to_string(), Data::String("z".to_string())); gd.data.map.remove("n"); }
        let r2 = dm.execute(&Data::Source(SourceCode::new(text, id)));
        let s = match &r2 { Ok(v) => v.lock().unwrap().to_string(), Err(_) => "<err>".to_string() };
        (r1.is_ok(), r2.is_ok(), s)
    };
    let fresh = run(false);
    let cached = run(true);
    vnd_cover(1035);
    vnd_check(1035, fresh.0 == cached.0 && fresh.1 == cached.1 && fresh.2 == cached.2);
    vnd_obs(1, if cached.1 { 1 } else { 0 });
}

/// '=' assigns to declared variables only, '?=' also creates; the stored value is the right-hand value
fn assignment() {
    let g = create_global_data_arc();
    let x = vnd_i64(1);
    { let mut gd = g.lock().unwrap(); gd.data.set_undefined("a".to_string(), Data::Integer(1)); gd.data.set_undefined("b".to_string(), Data::Integer(x)); }
    let k = vnd_conc(vnd_range(0, 3, 2), 3);
    let (text, var, ok) = match k { 0 => ("a = b", "a", true), 1 => ("n = b", "n", false), 2 => ("n ?= b", "n", true), _ => ("a ?= b + 0", "a", true) };
    let r = ExpressionParser::execute(text.to_string(), &mut g.lock().unwrap());
    let stored = { let gd = g.lock().unwrap(); match gd.data.get(var) { Some(v) => { let d = v.lock().unwrap(); int_of(&d) } None => None } };
    vnd_cover(1040);
    vnd_check(1040, r.is_ok() == ok && if ok { stored == Some(x) } else { stored.is_none() });
    vnd_obs(1, stored.unwrap_or(9) as u64);
}

/// C11: expressions whose operands alias the same stored value terminate (no lock on a value the thread already holds) and leave the store usable
fn alias_no_deadlock() {
    let g = create_global_data_arc();
    { let mut gd = g.lock().unwrap();
      gd.data.set_undefined("a".to_string(), Data::Integer(vnd_i64(1)));
      gd.data.set_undefined("arr".to_string(), Data::Array(vec![create_data_arc(Data::Integer(0)), create_data_arc(Data::Integer(1))]));
      gd.data.set_undefined("m".to_string(), Data::Map(std::collections::HashMap::new())); }
    let k = vnd_conc(vnd_range(0, 22, 2), 22);
    let text = match k {
        // a container indexed by a container that contains it: the key is rendered as text while the container is held
        20 => "m[[m]]", 21 => "m[{'k': m}]", 22 => "arr[[arr]]",
        // one operand nested inside the other one: the comparison reaches a value that the evaluation already holds
        16 => "arr == [arr]", 17 => "[arr] != arr", 18 => "m == {'k': m}", 19 => "arr == [arr, arr]",
        0 => "a = a", 1 => "a ?= a", 2 => "a + a", 3 => "a == a", 4 => "arr[arr[0]]", 5 => "arr = arr", 6 => "a = a + a", 7 => "arr + arr", 8 => "m = m",
        9 => "arr[arr]", 10 => "m[m]", 11 => "a * a - a", 12 => "arr[0] = arr[0]", 13 => "m.x ?= m", 14 => "[a, a][0] + a",
        _ => "a = a = a",
    };
    let r = ExpressionParser::execute(text.to_string(), &mut g.lock().unwrap());
    // the store is still usable afterwards
    let r2 = ExpressionParser::execute("a + 1".to_string(), &mut g.lock().unwrap());
    vnd_cover(1101);
    vnd_check(1101, r2.is_ok() && (r.is_ok() || r.is_err()));
    vnd_obs(1, if r.is_ok() { 1 } else { 0 });
}

/// C11: parsing any text of n arbitrary characters (placed in three contexts) terminates with Ok or Err, never a panic
fn lexer_terminates(n: u32) {
    let ctx = vnd_conc(vnd_range(0, 2, 1), 2);
    let mut s = String::new();
    if ctx == 1 { s.push_str("a "); } else if ctx == 2 { s.push_str("f('"); }
    let mut i = 0;
    while i < n { s.push(vnd_char(10 + i)); i += 1; }
    if ctx == 1 { s.push_str(" 1"); }
    let r = ExpressionParser::parse(s);
    vnd_cover(1110);
    vnd_check(1110, r.is_ok() || r.is_err());
    vnd_obs(1, if r.is_ok() { 1 } else { 0 });
}

/// C11: malformed / extreme concrete texts evaluate to a value or an error
fn bad_texts() {
    let k = vnd_conc(vnd_range(0, 29, 1), 29);
    let t = match k {
        24 => "[1,2][-1]", 25 => "[1,2][0 - 1]", 26 => "[1,2][2]", 27 => "[1,2][9223372036854775807]", 28 => "'abc'[-1]", 29 => "[1,2][indexOf('abc', 'x')]",
        0 => "", 1 => "(", 2 => ")", 3 => "1 +", 4 => "+ 1", 5 => "a..b", 6 => "[1,", 7 => "{'a':", 8 => "'abc", 9 => "1e", 10 => "--1", 11 => "7 % 0",
        12 => "-9223372036854775808 % -1", 13 => "abs(-9223372036854775808)", 14 => "99999999999999999999", 15 => "x[", 16 => "f(,)", 17 => "!",
        18 => "1 = 2", 19 => "'\\u00zz'", 20 => "a ? b", 21 => ". .", 22 => "[][0]", _ => "{}.x.y",
    };
    let g = create_global_data_arc();
    { let mut gd = g.lock().unwrap(); RFsmExpressionDatamodel::add_internal_functions_to_wrapper(&mut gd.actions); gd.data.set_undefined("a".to_string(), Data::Integer(1)); }
    let r = ExpressionParser::execute(t.to_string(), &mut g.lock().unwrap());
    vnd_cover(1120);
    vnd_check(1120, r.is_ok() || r.is_err());
    vnd_obs(1, if r.is_ok() { 1 } else { 0 });
}

/// Kani kernel: operators on one arbitrary f64 and one arbitrary i64 never panic and obey Double contagion
fn float_ops() {
    let x = vnd_f64(1);
    let y = vnd_i64(2);
    let (a, b) = (Data::Double(x), Data::Integer(y));
    let is_double = |d: &Data| match d { Data::Double(_) => true, _ => false };
    vnd_cover(1050);
    // Double contagion for + and -, comparison through f64 for a mixed pair.  (Multiplication, division and remainder of arbitrary
    // doubles are left out of the Kani kernel: bit-blasting them did not finish within 25 minutes; engine M covers them on concrete doubles.)
    vnd_check(1050, is_double(&operation_plus(&a, &b)) && is_double(&operation_minus(&b, &a)));
    vnd_check(1052, match operation_less(&a, &b) { Data::Boolean(r) => r == (x < y as f64), _ => false });
}

#[cfg(kani)]
mod proofs {
    #[kani::proof]
    fn k_c10_float() { super::float_ops() }
    #[kani::proof]
    fn k_c10_intops() { super::int_ops() }
}
