"""Engine K: Kani/CBMC on leaf kernels of the harness crate (cfg(kani) proof wrappers around the same h_* functions)."""
import os, re, subprocess, time, resource

VERIF = os.path.dirname(os.path.abspath(__file__))
HARNESS = os.path.join(VERIF, 'harness')
CACHE = os.path.join(VERIF, '.cache')


def _limits():
    resource.setrlimit(resource.RLIMIT_AS, (24 << 30, 24 << 30))


def _kani(args, log_path, time_cap):
    env = dict(os.environ, CARGO_NET_OFFLINE='true')
    cmd = ['cargo', 'kani', '--no-default-features', '--target-dir', os.path.join(CACHE, 'target-kani')] + args
    t = time.time()
    with open(log_path, 'w') as lf:
        try:
            p = subprocess.run(cmd, cwd=HARNESS, env=env, stdout=lf, stderr=subprocess.STDOUT, timeout=time_cap, preexec_fn=_limits)
            rc = p.returncode
        except subprocess.TimeoutExpired:
            rc = 'timeout'
            subprocess.run("ps -eo pid,args | grep '[c]bmc' | awk '{print $1}' | xargs -r kill -9", shell=True)
    return rc, time.time() - t, open(log_path, errors='replace').read()


def parse_playback(out):
    """concrete playback unit test -> list of byte vectors in kani::any() call order"""
    m = re.search(r'let concrete_vals: Vec<Vec<u8>> = vec!\[(.*?)\n\s*\];', out, re.S)
    if not m:
        return None
    vals = []
    for vm in re.finditer(r'vec!\[([0-9, ]*)\]', m.group(1)):
        bs = [int(x) for x in vm.group(1).replace(' ', '').split(',') if x]
        vals.append(bs)
    return vals


def run_kani(chk, kharness, native_harness, unwind=None, time_cap=600, stubs=(), bounds=None):
    """runs one #[kani::proof]; on failure extracts the counterexample and replays it natively through `native_harness`"""
    os.makedirs(os.path.join(CACHE, 'kani'), exist_ok=True)
    logp = os.path.join(CACHE, 'kani', kharness + '.log')
    args = ['--harness', kharness, '-Z', 'stubbing']
    rc, wall, out = _kani(args, logp, time_cap)
    rep = {'harness': kharness, 'engine': 'kani 0.68 / CBMC', 'wall_s': round(wall, 1), 'bounds': bounds or {}, 'log': logp}
    m = re.search(r'\*\* (\d+) of (\d+) failed', out)
    if m:
        rep['checks_total'] = int(m.group(2))
        rep['checks_failed'] = int(m.group(1))
        rep['checks_passed'] = int(m.group(2)) - int(m.group(1))
    m = re.search(r'(\d+) of (\d+) cover properties satisfied', out)
    if m:
        rep['cover_satisfied'] = '%s/%s' % (m.group(1), m.group(2))
    m = re.search(r'Verification Time: ([\d.]+)s', out)
    if m:
        rep['solver_s'] = float(m.group(1))
    unwind_fail = 'unwinding assertion' in out and re.search(r'unwinding assertion.*\n.*Status: FAILURE', out)
    if rc == 'timeout':
        chk.inconclusive.append('%s: Kani timed out after %ds' % (kharness, time_cap))
        rep['verdict'] = 'timeout'
    elif 'out of memory' in out or 'Status: ERROR' in out:
        chk.inconclusive.append('%s: Kani/CBMC out of memory or error' % kharness)
        rep['verdict'] = 'error'
    elif 'VERIFICATION:- SUCCESSFUL' in out:
        if rep.get('cover_satisfied', '1/1').split('/')[0] == '0':
            chk.inconclusive.append('%s: Kani cover property unsatisfied (vacuous harness)' % kharness)
        rep['verdict'] = 'successful'
        print('[K] %-28s SUCCESSFUL %s checks, %.0fs' % (kharness, rep.get('checks_total'), wall), flush=True)
    elif 'VERIFICATION:- FAILED' in out:
        rep['verdict'] = 'failed'
        failed = re.findall(r'Failed Checks: (.*)', out)
        rep['failed_checks'] = failed[:6]
        if unwind_fail or any('unwinding assertion' in f for f in failed):
            chk.inconclusive.append('%s: unwinding assertion failed (bound too small)' % kharness)
        else:
            # counterexample -> native replay
            rc2, wall2, out2 = _kani(args + ['-Z', 'concrete-playback', '--concrete-playback=print'], logp + '.playback', time_cap)
            vals = parse_playback(out2)
            if not vals:
                chk.inconclusive.append('%s: Kani failed (%s) but no concrete playback could be extracted' % (kharness, failed[:2]))
            else:
                inputs = []
                for bs in vals:
                    ty = {1: 'u8', 2: 'u16', 4: 'u32', 8: 'u64'}.get(len(bs), 'u64')
                    inputs.append({'tag': 0, 'type': ty, 'value': int.from_bytes(bytes(bs), 'little')})
                v = {'check': 'kani', 'kind': 'any', 'inputs': inputs, 'msg': '; '.join(failed[:2])}
                from checklib import native_run, write_replay, inputs_arg
                confirmed = False
                for prof in ('dev', 'release'):
                    r = native_run(native_harness, inputs, prof)
                    if r['panic'] or r['hang'] or any(not ok for ok in r['checks'].values()):
                        confirmed = True
                        break
                path = write_replay(chk.prop, native_harness, v, 'kani', '')
                if confirmed:
                    chk.violations.append((native_harness, path, 'kani', v['msg']))
                    print('  Kani counterexample reproduces natively: %s' % inputs_arg(inputs)[:200], flush=True)
                else:
                    chk.inconclusive.append('%s: Kani counterexample does not reproduce natively (%s)' % (kharness, inputs_arg(inputs)[:200]))
        print('[K] %-28s FAILED %s, %.0fs' % (kharness, failed[:2], wall), flush=True)
    else:
        chk.inconclusive.append('%s: Kani run did not produce a verdict (rc=%s); see %s' % (kharness, rc, logp))
        rep['verdict'] = 'none'
    return rep
