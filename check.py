import sys, os, importlib
sys.path.insert(0, os.path.dirname(os.path.abspath(__file__)))
import checklib


def main():
    args = sys.argv[1:]
    if not args:
        print('usage: check <property id> [--tier quick|thorough] [--replay file]')
        sys.exit(2)
    prop = args[0].upper()
    tier = os.environ.get('VERIF_TIER', 'quick')
    replay = None
    i = 1
    while i < len(args):
        if args[i] == '--tier':
            tier = args[i + 1]; i += 2
        elif args[i] == '--replay':
            replay = args[i + 1]; i += 2
        else:
            i += 1
    if replay:
        sys.exit(checklib.replay_file(replay))
    seed = int(os.environ.get('VERIF_SEED', '0') or 0)
    mod = importlib.import_module('props.%s' % prop.lower())
    chk = checklib.Check(prop, tier, seed, mod.LEVEL)
    try:
        mod.run(chk)
    except SystemExit:
        raise
    except Exception as e:
        import traceback
        traceback.print_exc()
        chk.inconclusive.append('check crashed: %r' % (e,))
    chk.finish()


main()
