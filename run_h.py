#!/usr/bin/env python3-vt
"""developer tool: explore one harness with engine M and print a summary"""
import sys, time, json, faulthandler, resource, os
resource.setrlimit(resource.RLIMIT_AS, (12<<30, 12<<30))
faulthandler.dump_traceback_later(int(os.environ.get('DBG_TIMEOUT','300')), exit=True)
sys.path.insert(0, '/verif')
from mirsym import build, driver
P = build.load_program()
for entry in sys.argv[1:]:
    t = time.time()
    r = driver.explore(P, entry, cfg={'sample_inputs': True})
    print('==', entry, 'paths', r.paths, dict(r.outcomes), 'steps', r.steps, 'queries', r.queries, 'wall %.2fs' % r.wall_s)
    print('   checked', dict(r.checked), 'covered', sorted(r.covered))
    for m, c in r.unsupported.most_common(8): print('   UNSUPPORTED x%d: %s' % (c, m))
    for m, c in r.panics.most_common(8): print('   PANIC x%d: %s' % (c, m))
    import collections
    print('   violations by obligation:', dict(collections.Counter(str(v['check']) for v in r.violations)), 'known:', dict(collections.Counter(str(v['kf']) for v in r.known_hits)))
    seen=set()
    for v in [v for v in r.violations if not (v['check'] in seen or seen.add(v['check']))][:6]: print('   VIOLATION', v['check'], v.get('msg',''), [(i['tag'], i['value']) for i in (v['inputs'] or [])][:12])
    for v in r.known_hits[:4]: print('   KNOWN', v['kf'], v['check'], [(i['tag'], i['value']) for i in v['inputs']][:12])
