#!/bin/sh
# Offline setup: verifies the tool chain and pre-builds the caches every check uses (MIR dumps, native replay binaries).
set -e
cd /verif
export CARGO_NET_OFFLINE=true
python3-vt -c "import z3; print('z3', z3.get_version_string())"
cargo +nightly --version
cargo kani --version || true
mkdir -p .cache evidence replays
python3-vt - <<'PY'
import sys
sys.path.insert(0, '/verif')
from mirsym import build
build.mir_dumps()
build.native_replay_bin('dev')
build.native_replay_bin('release')
print('setup ok')
PY
